package fullrt

// F14 (C16): NewFullRT never copied the configured IP diversity limit into the
// FullRT it returns, so WithIPDiversityFilterLimit (and the documented default)
// had no effect: the filter was always disabled and GetClosestPeers returned
// more than the configured number of peers per IP group.

import (
	"context"
	"testing"

	kb "github.com/libp2p/go-libp2p-kbucket"
	kadkey "github.com/libp2p/go-libp2p-xor/key"
	"github.com/libp2p/go-libp2p-xor/trie"
	"github.com/libp2p/go-libp2p/core/peer"
	"github.com/libp2p/go-libp2p/core/test"
	ma "github.com/multiformats/go-multiaddr"
)

func TestReproF14(t *testing.T) {
	frt := newTestFullRT(t, WithIPDiversityFilterLimit(1))
	frt.bucketSize = 3
	rt := trie.New()
	km := map[string]peer.ID{}
	pa := map[peer.ID][]ma.Multiaddr{}
	for _, a := range []string{"/ip4/1.1.1.1/tcp/1", "/ip4/1.1.2.2/tcp/1", "/ip4/1.1.3.3/tcp/1"} {
		p, _ := test.RandPeerID()
		k := kadkey.KbucketIDToKey(kb.ConvertPeerID(p))
		rt.Add(k)
		km[string(k)] = p
		pa[p] = []ma.Multiaddr{ma.StringCast(a)}
	}
	frt.rtLk.Lock()
	frt.kMapLk.Lock()
	frt.peerAddrsLk.Lock()
	frt.rt, frt.keyToPeerMap, frt.peerAddrs = rt, km, pa
	frt.peerAddrsLk.Unlock()
	frt.kMapLk.Unlock()
	frt.rtLk.Unlock()
	got, err := frt.GetClosestPeers(context.Background(), "some key")
	if err != nil {
		t.Fatal(err)
	}
	if len(got) != 1 {
		t.Fatalf("WithIPDiversityFilterLimit(1): %d peers of IP group 1.1.0.0/16 returned, want 1", len(got))
	}
}
