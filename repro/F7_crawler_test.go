package crawler

// F7 (C16): a peer listed twice among the starting peers was put on the dial
// list twice, so it was queried twice and two outcomes were reported for it.

import (
	"context"
	"sync"
	"testing"
	"time"

	"github.com/libp2p/go-libp2p"
	"github.com/libp2p/go-libp2p/core/peer"
	"github.com/libp2p/go-libp2p/core/test"
	ma "github.com/multiformats/go-multiaddr"
)

func TestReproF7(t *testing.T) {
	h, err := libp2p.New(libp2p.NoListenAddrs)
	if err != nil {
		t.Fatal(err)
	}
	defer h.Close()
	c, err := NewDefaultCrawler(h, WithParallelism(2), WithConnectTimeout(2*time.Second), WithMsgTimeout(2*time.Second))
	if err != nil {
		t.Fatal(err)
	}
	p, _ := test.RandPeerID()
	ai := &peer.AddrInfo{ID: p, Addrs: []ma.Multiaddr{ma.StringCast("/ip4/127.0.0.1/tcp/1")}}
	var mu sync.Mutex
	outcomes := map[peer.ID]int{}
	c.Run(context.Background(), []*peer.AddrInfo{ai, ai},
		func(p peer.ID, _ []*peer.AddrInfo) { mu.Lock(); outcomes[p]++; mu.Unlock() },
		func(p peer.ID, _ error) { mu.Lock(); outcomes[p]++; mu.Unlock() })
	if outcomes[p] != 1 {
		t.Fatalf("peer listed twice among the seeds: %d outcomes reported, want exactly 1", outcomes[p])
	}
}
