package keyspace

// F17 (C18): TrieGaps returned prefixes OUTSIDE the target when the target is
// deeper than the place where the walk meets a leaf or an empty branch: the
// siblings of a leaf key, or the one-bit branch name, were reported without
// being clipped to the target. The leaf-only case at the top of TrieGaps has
// always clipped to the target; the recursive case did not.

import (
	"reflect"
	"testing"

	"github.com/ipfs/go-libdht/kad/key/bitstr"
	"github.com/ipfs/go-libdht/kad/trie"
)

func TestReproF17(t *testing.T) {
	mk := func(ks ...bitstr.Key) *trie.Trie[bitstr.Key, struct{}] {
		tr := trie.New[bitstr.Key, struct{}]()
		for _, k := range ks {
			tr.Add(k, struct{}{})
		}
		return tr
	}
	order := bitstr.Key("000")
	// target "111" is a member: fully covered, no gap
	if got := TrieGaps(mk("10", "111"), "111", order); len(got) != 0 {
		t.Errorf(`TrieGaps({10,111}, "111") = %q, want no gap ("110" is outside the target)`, got)
	}
	// nothing under "0" is covered: the gap at "00" is "00", not the broader "0"
	if got := TrieGaps(mk("110", "111"), "00", order); !reflect.DeepEqual(got, []bitstr.Key{"00"}) {
		t.Errorf(`TrieGaps({110,111}, "00") = %q, want ["00"]`, got)
	}
	// a leaf that leaves the target's path above the target: whole target uncovered
	if got := TrieGaps(mk("010", "1"), "00", order); !reflect.DeepEqual(got, []bitstr.Key{"00"}) {
		t.Errorf(`TrieGaps({010,1}, "00") = %q, want ["00"]`, got)
	}
}
