package provider

// F16 (C17/C18): provideRegions allocates the keys of a region to peers with
// keyspace.AllocateToKClosest(r.Keys, r.Peers, rf). r.Keys is a trie rooted at
// depth 0 (built with trie.New + AddMany in AssignKeysToRegions) while r.Peers
// is the SUB-trie of the peers trie rooted at depth len(r.Prefix)
// (extractMinimalRegions returns the branch it stopped at). The allocation
// walks both tries in lock step from depth 0, so for every region with a
// non-empty prefix the key bits and the peer bits it compares are bits of
// different positions: keys are not sent to the replication-factor closest
// peers of the region.
//
// The test uses exactly the calls provideRegions' callers make
// (RegionsFromPeers -> AssignKeysToRegions) and then the allocation step of
// provideRegions, and compares with a brute-force XOR ranking.

import (
	"crypto/sha256"
	"fmt"
	"sort"
	"testing"

	"github.com/ipfs/go-libdht/kad/key/bit256"
	"github.com/ipfs/go-libdht/kad/key/bitstr"
	"github.com/libp2p/go-libp2p-kad-dht/provider/internal/keyspace"
	"github.com/libp2p/go-libp2p/core/peer"
	mh "github.com/multiformats/go-multihash"
)

func TestReproF16(t *testing.T) {
	const rf = 3
	var peers []peer.ID
	for i := 0; i < 24; i++ {
		h := sha256.Sum256([]byte(fmt.Sprintf("peer-%d", i)))
		m, _ := mh.Encode(h[:], mh.IDENTITY)
		peers = append(peers, peer.ID(m))
	}
	var keys []mh.Multihash
	for i := 0; i < 400; i++ {
		h := sha256.Sum256([]byte(fmt.Sprintf("key-%d", i)))
		m, _ := mh.Encode(h[:], mh.SHA2_256)
		keys = append(keys, m)
	}
	order := bit256.ZeroKey()
	regions := keyspace.RegionsFromPeers(peers, rf, order, bitstr.Key(""))
	regions = keyspace.AssignKeysToRegions(regions, keys)
	if len(regions) < 2 {
		t.Fatalf("expected several regions, got %d", len(regions))
	}
	bad, total := 0, 0
	for _, r := range regions {
		regionPeers := keyspace.AllValues(r.Peers, order)
		regionKeys := keyspace.AllValues(r.Keys, order)
		// the allocation step of provideRegions, verbatim
		alloc := keyspace.AllocateToKClosest(r.Keys, r.Peers, rf)
		got := map[string]map[peer.ID]bool{}
		for p, batches := range alloc {
			for _, b := range batches {
				for _, k := range b {
					if got[string(k)] == nil {
						got[string(k)] = map[peer.ID]bool{}
					}
					got[string(k)][p] = true
				}
			}
		}
		for _, k := range regionKeys {
			total++
			kk := keyspace.MhToBit256(k)
			sorted := append([]peer.ID(nil), regionPeers...)
			sort.Slice(sorted, func(i, j int) bool {
				return keyspace.PeerIDToBit256(sorted[i]).Xor(kk).Compare(keyspace.PeerIDToBit256(sorted[j]).Xor(kk)) < 0
			})
			n := min(rf, len(sorted))
			ok := len(got[string(k)]) == n
			for _, p := range sorted[:n] {
				if !got[string(k)][p] {
					ok = false
				}
			}
			if !ok {
				bad++
				if bad <= 3 {
					t.Errorf("region %q: key %x allocated to %d peers, not to its %d closest peers of the region", r.Prefix, []byte(k)[:6], len(got[string(k)]), n)
				}
			}
		}
	}
	if bad > 0 {
		t.Errorf("%d of %d keys are not allocated to the %d closest peers of their region", bad, total, rf)
	}
}
