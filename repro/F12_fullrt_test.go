package fullrt

// F12 (C16): a FullRT built without a BucketSize option (the hand-built config
// has no default) and with the diversity filter disabled walks the table in
// steps of bucketSize + 2*limit = 0: GetClosestPeers never terminates (holding
// the three read locks) as soon as the table holds one peer.

import (
	"context"
	"testing"
	"time"

	"github.com/libp2p/go-libp2p"
	kaddht "github.com/libp2p/go-libp2p-kad-dht"
	kb "github.com/libp2p/go-libp2p-kbucket"
	kadkey "github.com/libp2p/go-libp2p-xor/key"
	"github.com/libp2p/go-libp2p-xor/trie"
	"github.com/libp2p/go-libp2p/core/peer"
	"github.com/libp2p/go-libp2p/core/test"
)

func TestReproF12(t *testing.T) {
	h, err := libp2p.New(libp2p.NoListenAddrs)
	if err != nil {
		t.Fatal(err)
	}
	defer h.Close()
	frt, err := NewFullRT(h, "/repro", WithCrawler(blockingCrawler{}), WithIPDiversityFilterLimit(0),
		DHTOption(kaddht.BootstrapPeers()))
	if err != nil {
		t.Fatal(err)
	}
	p, _ := test.RandPeerID()
	k := kadkey.KbucketIDToKey(kb.ConvertPeerID(p))
	rt := trie.New()
	rt.Add(k)
	frt.rtLk.Lock()
	frt.kMapLk.Lock()
	frt.rt = rt
	frt.keyToPeerMap = map[string]peer.ID{string(k): p}
	frt.kMapLk.Unlock()
	frt.rtLk.Unlock()
	done := make(chan []peer.ID, 1)
	go func() {
		ps, _ := frt.GetClosestPeers(context.Background(), "some key")
		done <- ps
	}()
	select {
	case ps := <-done:
		if len(ps) != 1 {
			t.Fatalf("got %v", ps)
		}
	case <-time.After(3 * time.Second):
		t.Fatal("GetClosestPeers did not return within 3s (bucket size option missing, filter disabled)")
	}
}
