package fullrt

// F2 (C16): bulk operations divided by the number of crawled peers; on an
// empty table (before the first crawl finishes, or when every crawled peer is
// filtered out) ProvideMany / PutMany panicked with a division by zero.

import (
	"context"
	"testing"

	"github.com/ipfs/go-cid"
	"github.com/multiformats/go-multihash"
	ma "github.com/multiformats/go-multiaddr"
	"github.com/libp2p/go-libp2p"
	kaddht "github.com/libp2p/go-libp2p-kad-dht"
)

func TestReproF2(t *testing.T) {
	h, err := libp2p.New(libp2p.ListenAddrs(ma.StringCast("/ip4/127.0.0.1/tcp/0")))
	if err != nil {
		t.Fatal(err)
	}
	defer h.Close()
	frt, err := NewFullRT(h, "/repro", WithCrawler(blockingCrawler{}),
		DHTOption(kaddht.BootstrapPeers(), kaddht.BucketSize(20)))
	if err != nil {
		t.Fatal(err)
	}
	defer frt.Close()
	mh, _ := multihash.Sum([]byte("x"), multihash.SHA2_256, -1)
	_ = cid.Undef
	defer func() {
		if r := recover(); r != nil {
			t.Fatalf("ProvideMany on an empty table panicked: %v", r)
		}
	}()
	if err := frt.ProvideMany(context.Background(), []multihash.Multihash{mh}); err == nil {
		t.Fatal("ProvideMany on an empty table reported success")
	}
}
