package fullrt

// F5 (C16): a single crawled peer with two addresses in ONE IP group
// (tcp + quic on the same IP, the normal case) and a diversity limit of 1 was
// dropped from GetClosestPeers although its group holds only that one peer.

import (
	"context"
	"testing"

	"github.com/libp2p/go-libp2p/core/peer"
	"github.com/libp2p/go-libp2p/core/test"
	kb "github.com/libp2p/go-libp2p-kbucket"
	kadkey "github.com/libp2p/go-libp2p-xor/key"
	"github.com/libp2p/go-libp2p-xor/trie"
	ma "github.com/multiformats/go-multiaddr"
)

func TestReproF5(t *testing.T) {
	frt := newTestFullRT(t)
	frt.bucketSize = 3
	frt.ipDiversityFilterLimit = 1
	p, err := test.RandPeerID()
	if err != nil {
		t.Fatal(err)
	}
	k := kadkey.KbucketIDToKey(kb.ConvertPeerID(p))
	rt := trie.New()
	rt.Add(k)
	frt.rtLk.Lock()
	frt.kMapLk.Lock()
	frt.peerAddrsLk.Lock()
	frt.rt = rt
	frt.keyToPeerMap = map[string]peer.ID{string(k): p}
	frt.peerAddrs = map[peer.ID][]ma.Multiaddr{p: {
		ma.StringCast("/ip4/1.1.1.1/tcp/4001"),
		ma.StringCast("/ip4/1.1.1.1/udp/4001/quic-v1"),
	}}
	frt.peerAddrsLk.Unlock()
	frt.kMapLk.Unlock()
	frt.rtLk.Unlock()
	got, err := frt.GetClosestPeers(context.Background(), "some key")
	if err != nil {
		t.Fatal(err)
	}
	if len(got) != 1 || got[0] != p {
		t.Fatalf("the only crawled peer (group holds 1 <= limit 1 peers) was not returned: %v", got)
	}
}
