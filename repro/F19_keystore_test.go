package keystore

// F19 (C20): keystore.empty ranges over ds.QueryIter with `for res, err := range`
// and, at a batch boundary, assigns the results of batch.Commit and d.Batch to
// that same `err`. A query-result error delivered on an iteration that starts
// with a full batch is therefore overwritten by nil: the error is swallowed,
// the iteration ends (QueryIter stops after an error), and empty returns nil
// although keys are left. The worker then sets the size to 0: Size no longer
// equals the number of stored keys.

import (
	"context"
	"errors"
	"sync/atomic"
	"testing"

	ds "github.com/ipfs/go-datastore"
	"github.com/ipfs/go-datastore/query"
	dssync "github.com/ipfs/go-datastore/sync"
	mh "github.com/multiformats/go-multihash"
)

// faultyQueryDs makes the (failAt+1)-th result of the next armed keys-only
// query an error result.
type faultyQueryDs struct {
	ds.Batching
	armed  atomic.Bool
	failAt int
}

func (f *faultyQueryDs) Query(ctx context.Context, q query.Query) (query.Results, error) {
	res, err := f.Batching.Query(ctx, q)
	if err != nil || !q.KeysOnly || !f.armed.CompareAndSwap(true, false) {
		return res, err
	}
	i := 0
	return query.ResultsFromIterator(q, query.Iterator{
		Next: func() (query.Result, bool) {
			if i == f.failAt {
				i++
				return query.Result{Error: errors.New("injected query fault")}, true
			}
			i++
			return res.NextSync()
		},
		Close: res.Close,
	}), nil
}

func TestReproF19(t *testing.T) {
	const batch = 2
	f := &faultyQueryDs{Batching: dssync.MutexWrap(ds.NewMapDatastore()), failAt: batch}
	ks, err := NewKeystore(f, WithBatchSize(batch))
	if err != nil {
		t.Fatal(err)
	}
	defer ks.Close()
	ctx := context.Background()
	var keys []mh.Multihash
	for i := 0; i < 6; i++ {
		h, _ := mh.Sum([]byte{byte(i)}, mh.SHA2_256, -1)
		keys = append(keys, h)
	}
	if _, err := ks.Put(ctx, keys...); err != nil {
		t.Fatal(err)
	}

	f.armed.Store(true) // the query of Empty fails on its third result, i.e. right after a full batch
	emptyErr := ks.Empty(ctx)

	left, err := ks.Get(ctx, "")
	if err != nil {
		t.Fatal(err)
	}
	size, err := ks.Size(ctx)
	if err != nil {
		t.Fatal(err)
	}
	if size != len(left) {
		t.Errorf("Size() = %d but %d keys are stored (Empty returned %v after an injected query fault)", size, len(left), emptyErr)
	}
	if emptyErr == nil && len(left) > 0 {
		t.Errorf("Empty reported success although %d keys are left", len(left))
	}
}
