package queue

// F10 (C19/C17): keys queued under the EMPTY prefix (a very small network:
// average prefix length 0) were persisted under the datastore key
// "<position>/" - whose trailing slash ds.NewKey strips - and DrainDatastore
// skipped every key that does not have two path components: the queued work
// was lost across a restart.

import (
	"context"
	"testing"

	ds "github.com/ipfs/go-datastore"
	dssync "github.com/ipfs/go-datastore/sync"
	"github.com/ipfs/go-libdht/kad/key/bitstr"
	mh "github.com/multiformats/go-multihash"
)

func TestReproF10(t *testing.T) {
	ctx := context.Background()
	d := dssync.MutexWrap(ds.NewMapDatastore())
	q := NewProvideQueue()
	h, _ := mh.Sum([]byte("some content"), mh.SHA2_256, -1)
	q.Enqueue(bitstr.Key(""), h)
	if err := q.Persist(ctx, d, 16); err != nil {
		t.Fatal(err)
	}
	q2 := NewProvideQueue()
	if err := q2.DrainDatastore(ctx, d); err != nil {
		t.Fatal(err)
	}
	if q2.Size() != 1 {
		t.Fatalf("restart lost the work queued under the empty prefix: %d keys restored, want 1", q2.Size())
	}
}
