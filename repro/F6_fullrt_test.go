package fullrt

// F6 (C04): the accelerated client's getValues emitted the locally stored
// record without asking the validator again, unlike the standard DHT. A record
// that was valid when stored but is rejected now (e.g. expired) was handed to
// SearchValue/GetValue callers as a result.

import (
	"context"
	"errors"
	"sync/atomic"
	"testing"
	"time"

	kaddht "github.com/libp2p/go-libp2p-kad-dht"
	record "github.com/libp2p/go-libp2p-record"
)

type flipValidator struct{ reject atomic.Bool }

func (v *flipValidator) Validate(string, []byte) error {
	if v.reject.Load() {
		return errors.New("expired")
	}
	return nil
}
func (v *flipValidator) Select(string, [][]byte) (int, error) { return 0, nil }

func TestReproF6(t *testing.T) {
	v := &flipValidator{}
	frt := newTestFullRT(t, DHTOption(kaddht.Validator(record.NamespacedValidator{"v": v})))
	ctx, cancel := context.WithTimeout(context.Background(), 5*time.Second)
	defer cancel()
	key := "/v/some-key"
	if err := frt.putLocal(ctx, key, record.MakePutRecord(key, []byte("value"))); err != nil {
		t.Fatal(err)
	}
	v.reject.Store(true) // the stored record is no longer valid
	valCh, _ := frt.getValues(ctx, key)
	for rv := range valCh {
		t.Fatalf("a record the validator rejects was emitted: %q", rv.Val)
	}
}
