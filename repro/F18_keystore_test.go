package keystore

// F18 (C14): ResetCids abandoned the opStart exchange with the worker when the
// caller's context was cancelled while the worker was still preparing the
// alternate datastore: it returned ctx.Err() without reading the worker's
// answer. The answer is sent on an unbuffered channel, so the worker goroutine
// blocks forever on that send: every later keystore operation hangs, and Close
// (which waits for the worker to exit) never returns.

import (
	"context"
	"sync/atomic"
	"testing"
	"time"

	"github.com/ipfs/go-cid"
	ds "github.com/ipfs/go-datastore"
	dssync "github.com/ipfs/go-datastore/sync"
)

// gateDs blocks the first Batch() call made after it is armed (the one
// emptySharedAltDs makes while the worker handles opStart).
type gateDs struct {
	ds.Batching
	armed   atomic.Bool
	entered chan struct{}
	release chan struct{}
}

func (g *gateDs) Batch(ctx context.Context) (ds.Batch, error) {
	if g.armed.CompareAndSwap(true, false) {
		close(g.entered)
		<-g.release
	}
	return g.Batching.Batch(ctx)
}

func TestReproF18(t *testing.T) {
	g := &gateDs{Batching: dssync.MutexWrap(ds.NewMapDatastore()), entered: make(chan struct{}), release: make(chan struct{})}
	ks, err := NewResettableKeystore(g)
	if err != nil {
		t.Fatal(err)
	}

	ctx, cancel := context.WithCancel(context.Background())
	keys := make(chan cid.Cid)
	resetDone := make(chan error, 1)
	g.armed.Store(true)
	go func() { resetDone <- ks.ResetCids(ctx, keys) }()

	select {
	case <-g.entered: // the worker is inside prepareAltDs
	case <-time.After(5 * time.Second):
		t.Fatal("worker never started preparing the alternate datastore")
	}
	cancel() // the caller gives up while the worker is busy
	time.Sleep(100 * time.Millisecond)
	close(g.release) // the worker finishes its step and answers

	select {
	case <-resetDone:
	case <-time.After(5 * time.Second):
		t.Fatal("ResetCids did not return after cancellation")
	}

	closed := make(chan error, 1)
	go func() { closed <- ks.Close() }()
	select {
	case <-closed:
	case <-time.After(5 * time.Second):
		t.Fatal("Close did not return within 5s after a cancelled ResetCids: the keystore worker is stuck sending its answer to the abandoned opStart")
	}
}
