package fullrt

// F3 (C16): NewFullRT called the config's BootstrapPeers func unconditionally;
// the hand-built config leaves it nil unless the BootstrapPeers option is
// given, so constructing a FullRT without that option panicked.

import (
	"testing"

	"github.com/libp2p/go-libp2p"
)

func TestReproF3(t *testing.T) {
	h, err := libp2p.New(libp2p.NoListenAddrs)
	if err != nil {
		t.Fatal(err)
	}
	defer h.Close()
	defer func() {
		if r := recover(); r != nil {
			t.Fatalf("NewFullRT without BootstrapPeers option panicked: %v", r)
		}
	}()
	frt, err := NewFullRT(h, "/repro", WithCrawler(blockingCrawler{}))
	if err == nil {
		frt.Close()
	}
}
