package provider

// F15 (C17): reprovideTimeForPrefix computed interval*val/2^n in int64. With
// the default 22h interval the product leaves the 64-bit range for prefixes of
// 17 bits and more (maxPrefixSize allows 24): the slot of such a region is
// garbage (outside the cycle or negative), so its reprovide time is wrong.

import (
	"math/big"
	"strings"
	"testing"
	"time"

	"github.com/ipfs/go-libdht/kad/key/bit256"
	"github.com/ipfs/go-libdht/kad/key/bitstr"
)

func TestReproF15(t *testing.T) {
	s := &SweepingProvider{reprovideInterval: 22 * time.Hour, order: bit256.ZeroKey()}
	for _, n := range []int{16, 17, 20, 24} {
		prefix := bitstr.Key(strings.Repeat("1", n))
		got := s.reprovideTimeForPrefix(prefix)
		// exact: interval * (2^n - 1) / 2^n
		want := new(big.Int).Mul(big.NewInt(int64(s.reprovideInterval)), new(big.Int).Sub(new(big.Int).Lsh(big.NewInt(1), uint(n)), big.NewInt(1)))
		want.Rsh(want, uint(n))
		if got < 0 || got >= s.reprovideInterval || int64(got) != want.Int64() {
			t.Errorf("prefix of %d one-bits: slot %v, want %v (inside [0, %v))", n, got, time.Duration(want.Int64()), s.reprovideInterval)
		}
	}
}
