package fullrt

// F8 (C16): runCrawler replaced peerAddrs, keyToPeerMap and the trie under
// three separately taken locks. A GetClosestPeers call that had taken
// rtLk.RLock() before the swap reached the trie could see the OLD trie with
// the NEW key map: every key of the old trie is then "not found in map" and the
// result is neither crawl's nearest peers. Here two crawls with disjoint peer
// sets alternate while readers run; every answer must be K peers of one crawl.

import (
	"context"
	"sync"
	"sync/atomic"
	"testing"
	"time"

	"github.com/libp2p/go-libp2p"
	kaddht "github.com/libp2p/go-libp2p-kad-dht"
	"github.com/libp2p/go-libp2p-kad-dht/crawler"
	"github.com/libp2p/go-libp2p/core/peer"
		ma "github.com/multiformats/go-multiaddr"
)

type altCrawler struct {
	n    atomic.Int64
	sets [2][]peer.ID
}

func (c *altCrawler) Run(ctx context.Context, _ []*peer.AddrInfo, ok crawler.HandleQueryResult, _ crawler.HandleQueryFail) {
	i := c.n.Add(1) % 2
	for _, p := range c.sets[i] {
		ok(p, nil)
	}
}

func TestReproF8(t *testing.T) {
	h, err := libp2p.New(libp2p.ListenAddrStrings("/ip4/127.0.0.1/tcp/0"))
	if err != nil {
		t.Fatal(err)
	}
	defer h.Close()
	c := &altCrawler{}
	member := [2]map[peer.ID]bool{{}, {}}
	for i := 0; i < 2; i++ {
		for j := 0; j < 6; j++ {
			// PublicRoutingTableFilter keeps only connected peers with a public
			// address in the peerstore: real loopback hosts plus a fake address
			ph, err := libp2p.New(libp2p.ListenAddrStrings("/ip4/127.0.0.1/tcp/0"))
			if err != nil {
				t.Fatal(err)
			}
			defer ph.Close()
			if err := h.Connect(context.Background(), peer.AddrInfo{ID: ph.ID(), Addrs: ph.Addrs()}); err != nil {
				t.Fatal(err)
			}
			p := ph.ID()
			c.sets[i] = append(c.sets[i], p)
			member[i][p] = true
			h.Peerstore().AddAddr(p, ma.StringCast("/ip4/8.8.8.8/tcp/4001"), time.Hour)
		}
	}
	frt, err := NewFullRT(h, "/repro", WithCrawler(c), WithCrawlInterval(time.Hour),
		DHTOption(kaddht.BootstrapPeers(), kaddht.BucketSize(5)))
	if err != nil {
		t.Fatal(err)
	}
	defer frt.Close()
	frt.ipDiversityFilterLimit = 0
	// wait for the first crawl to be installed
	for i := 0; i < 1000; i++ {
		if ps, _ := frt.GetClosestPeers(context.Background(), "k"); len(ps) == 5 {
			break
		}
		if i == 999 {
			t.Fatal("first crawl never installed")
		}
		time.Sleep(time.Millisecond)
	}
	ctx, cancel := context.WithTimeout(context.Background(), 8*time.Second)
	defer cancel()
	var bad atomic.Value
	var wg sync.WaitGroup
	for r := 0; r < 8; r++ {
		wg.Add(1)
		go func() {
			defer wg.Done()
			for ctx.Err() == nil && bad.Load() == nil {
				ps, err := frt.GetClosestPeers(context.Background(), "k")
				if err != nil {
					continue
				}
				in0, in1 := 0, 0
				for _, p := range ps {
					if member[0][p] {
						in0++
					}
					if member[1][p] {
						in1++
					}
				}
				if !(len(ps) == 5 && (in0 == 5 || in1 == 5)) {
					bad.Store([]int{len(ps), in0, in1})
					return
				}
			}
		}()
	}
	for ctx.Err() == nil && bad.Load() == nil {
		_ = frt.TriggerRefresh(ctx)
	}
	wg.Wait()
	if b := bad.Load(); b != nil {
		t.Fatalf("GetClosestPeers answer mixes two crawls: (len, from crawl 0, from crawl 1) = %v", b)
	}
}
