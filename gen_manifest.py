#!/usr/bin/env python3
# Generates MANIFEST.json from props/*.json + manifest_meta.json
import json, glob, os, subprocess
meta = json.load(open('/verif/manifest_meta.json'))
props = {}
for l in open('/verif/properties.jsonl'):
    p = json.loads(l); props[p['id']] = p
checks = []
claimed = set()
for f in sorted(glob.glob('/verif/props/C*.json')):
    cfg = json.load(open(f)); pid = cfg['id']
    m = meta['checks'].get(pid)
    if not m or m.get('disabled'):
        continue
    claimed.add(pid)
    checks.append({
        "property_id": pid,
        "quick_cmd": f"./check {pid} quick",
        "thorough_cmd": f"./check {pid} thorough",
        "evidence_file": f"/verif/evidence/{pid}.json",
        "replay_cmd_template": "./check --replay {path}",
        "engine": "govc",
        "level_claimed": {"category": m.get("category", "proof"), "text": m["text"], "design_ref": m.get('design_ref', 'DESIGN.md §3')},
        "level_note": m['note'],
        "technique": m.get('technique', "contract-based deductive verification: VCs generated from the real Go source by govc, discharged by z3/cvc5"),
    })
na = []
for pid in sorted(props):
    if pid not in claimed:
        na.append({"property_id": pid, "reason": meta['not_applicable'].get(pid, "no contract within reach of this machinery yet decides a clause of this property; not claimed")})
try:
    commits = subprocess.check_output(['git','-C','/repo','log','--format=%H %s','8073da8..HEAD'], text=True).strip().split('\n')
except Exception:
    commits = []
hooks = [c.split()[0] for c in commits if c and ' verif:' in ' '+c.split(' ',1)[1][:7] or (c and c.split(' ',1)[1].startswith('verif'))]
man = {
 "version": 1,
 "setup_cmd": "cd /verif/govc && PATH=/opt/veriftools/go1.26.8/bin:$PATH GOTOOLCHAIN=local GOFLAGS=-mod=mod GOPROXY=off GOSUMDB=off go build -o /verif/bin/govc .",
 "hooks": {
   "guard": "verif",
   "enable": "go build tag `verif` (govc loads /repo with -tags=verif; the hook files are comment-only contract files named verif_contracts*.go)",
   "baseline_off_cmd": "cd /repo && GOFLAGS=-mod=mod GOPROXY=off go test -vet=off -count=1 -timeout 25m ./...",
   "source_commits": sorted(set(hooks)),
   "add_only": True
 },
 "engines": [{"name": "govc", "path": "/verif/govc", "serves_properties": sorted(claimed), "kind_free_text": "home-made verification-condition generator for Go (typed AST, forward symbolic execution, contracts in /repo/**/verif_contracts*.go and /verif/extern/*.spec), SMT portfolio z3-new/z3/cvc5"}],
 "checks": checks,
 "not_applicable": na,
 "notes": meta.get('notes','')
}
json.dump(man, open('/verif/MANIFEST.json','w'), indent=1)
print("claimed", sorted(claimed), "na", len(na))
