package main

// Statement execution: forward symbolic execution with state forking and
// merging; loops are cut at the head by invariants.

import (
	"fmt"
	"go/ast"
	"go/token"
	"go/types"
	"os"
	"sort"
	"strings"
)

const maxStates = 4096

func (c *ExecCtx) execBlock(states []*State, list []ast.Stmt) []*State {
	for _, s := range list {
		var next []*State
		for _, st := range states {
			if st.dead {
				continue
			}
			next = append(next, c.execStmt(st, s)...)
		}
		states = next
		if len(states) > 64 {
			// try merging to keep the frontier small
			if m := c.u.mergeOrKeep(commonPrefix(states), states); len(m) < len(states) {
				states = m
			}
		}
		c.u.nstates += len(states)
		if c.u.nstates > maxStates*64 {
			c.u.unsupportedf(s.Pos(), "state budget exceeded")
			return nil
		}
		if len(states) == 0 {
			break
		}
	}
	return states
}

// commonPrefix computes the length of the shared assumption prefix.
func commonPrefix(states []*State) int {
	if len(states) == 0 {
		return 0
	}
	n := len(states[0].assume)
	for _, s := range states[1:] {
		if len(s.assume) < n {
			n = len(s.assume)
		}
	}
	for i := 0; i < n; i++ {
		for _, s := range states[1:] {
			if s.assume[i] != states[0].assume[i] {
				return i
			}
		}
	}
	return n
}

func (c *ExecCtx) execStmt(st *State, s ast.Stmt) []*State {
	u := c.u
	if st.dead {
		return nil
	}
	c.curPos = s.Pos()
	c.runGhostAnchors(st, s, "before")
	switch x := s.(type) {
	case *ast.ExprStmt:
		if call, ok := ast.Unparen(x.X).(*ast.CallExpr); ok {
			c.evalCall(st, call)
		} else {
			c.eval(st, x.X)
		}
		return live(st)
	case *ast.AssignStmt:
		c.execAssign(st, x)
		c.runGhostAnchors(st, s, "after")
		return live(st)
	case *ast.DeclStmt:
		gd, ok := x.Decl.(*ast.GenDecl)
		if !ok || gd.Tok != token.VAR {
			return live(st)
		}
		for _, sp := range gd.Specs {
			vs := sp.(*ast.ValueSpec)
			if len(vs.Values) == len(vs.Names) {
				for i, n := range vs.Names {
					obj := c.info.Defs[n]
					v := c.eval(st, vs.Values[i])
					if obj != nil {
						u.varSet(st, obj, c.convert(st, v, obj.Type()))
					}
				}
			} else if len(vs.Values) == 1 && len(vs.Names) > 1 {
				vals := c.evalMulti(st, vs.Values[0], len(vs.Names))
				for i, n := range vs.Names {
					if obj := c.info.Defs[n]; obj != nil && i < len(vals) {
						u.varSet(st, obj, c.convert(st, vals[i], obj.Type()))
					}
				}
			} else {
				for _, n := range vs.Names {
					if obj := c.info.Defs[n]; obj != nil {
						u.varSet(st, obj, u.eng.tm.Zero(obj.Type()))
					}
				}
			}
		}
		return live(st)
	case *ast.IncDecStmt:
		v := c.eval(st, x.X)
		one := IntLit(1)
		var nv *Term
		if x.Tok == token.INC {
			nv = Add(v.T, one)
		} else {
			nv = Sub(v.T, one)
		}
		c.assignTo(st, x.X, Val{nv, v.Ty})
		c.runGhostAnchors(st, s, "after")
		return live(st)
	case *ast.BlockStmt:
		return c.execBlock([]*State{st}, x.List)
	case *ast.IfStmt:
		return c.execIf(st, x)
	case *ast.ForStmt:
		return c.execFor(st, x, c.takeLabel())
	case *ast.RangeStmt:
		return c.execRange(st, x, c.takeLabel())
	case *ast.SwitchStmt:
		return c.execSwitch(st, x, c.takeLabel())
	case *ast.TypeSwitchStmt:
		return c.execTypeSwitch(st, x, c.takeLabel())
	case *ast.SelectStmt:
		return c.execSelect(st, x, c.takeLabel())
	case *ast.LabeledStmt:
		c.pendingLabel = x.Label.Name
		return c.execStmt(st, x.Stmt)
	case *ast.ReturnStmt:
		c.execReturn(st, x)
		return nil
	case *ast.BranchStmt:
		c.execBranch(st, x)
		return nil
	case *ast.DeferStmt:
		c.execDefer(st, x)
		return live(st)
	case *ast.GoStmt:
		c.execGo(st, x)
		return live(st)
	case *ast.SendStmt:
		c.execSend(st, x)
		return live(st)
	case *ast.EmptyStmt:
		return live(st)
	}
	u.unsupportedf(s.Pos(), "statement %T", s)
	return live(st)
}

func (c *ExecCtx) takeLabel() string {
	l := c.pendingLabel
	c.pendingLabel = ""
	return l
}

func live(st *State) []*State {
	if st.dead {
		return nil
	}
	return []*State{st}
}

func (c *ExecCtx) evalMulti(st *State, e ast.Expr, n int) []Val {
	switch x := ast.Unparen(e).(type) {
	case *ast.CallExpr:
		vs := c.evalCall(st, x)
		for len(vs) < n {
			vs = append(vs, Val{c.u.fresh("missing", SInt), types.Typ[types.Invalid]})
		}
		return vs
	case *ast.TypeAssertExpr:
		return c.evalTypeAssert(st, x, true)
	case *ast.IndexExpr:
		base := c.eval(st, x.X)
		if mt, ok := unalias(base.Ty).Underlying().(*types.Map); ok {
			k := c.convert(st, c.eval(st, x.Index), mt.Key())
			v, ok := c.mapLookup(st, base, k)
			return []Val{v, {c.u.define(st, "mapok", ok), types.Typ[types.Bool]}}
		}
	case *ast.UnaryExpr:
		if x.Op == token.ARROW {
			return c.evalRecv(st, x, true)
		}
	}
	c.u.unsupportedf(e.Pos(), "multi-value expression %T", e)
	out := make([]Val, n)
	for i := range out {
		out[i] = Val{c.u.fresh("mv", SInt), types.Typ[types.Invalid]}
	}
	return out
}

func (c *ExecCtx) execAssign(st *State, x *ast.AssignStmt) {
	u := c.u
	if x.Tok != token.ASSIGN && x.Tok != token.DEFINE {
		// op-assign
		var op token.Token
		switch x.Tok {
		case token.ADD_ASSIGN:
			op = token.ADD
		case token.SUB_ASSIGN:
			op = token.SUB
		case token.MUL_ASSIGN:
			op = token.MUL
		case token.QUO_ASSIGN:
			op = token.QUO
		case token.REM_ASSIGN:
			op = token.REM
		case token.AND_ASSIGN:
			op = token.AND
		case token.OR_ASSIGN:
			op = token.OR
		case token.XOR_ASSIGN:
			op = token.XOR
		case token.SHL_ASSIGN:
			op = token.SHL
		case token.SHR_ASSIGN:
			op = token.SHR
		case token.AND_NOT_ASSIGN:
			op = token.AND_NOT
		}
		l := c.eval(st, x.Lhs[0])
		r := c.eval(st, x.Rhs[0])
		c.assignTo(st, x.Lhs[0], c.binop(st, op, l, r, l.Ty, x.Pos()))
		return
	}
	var vals []Val
	if len(x.Rhs) == 1 && len(x.Lhs) > 1 {
		vals = c.evalMulti(st, x.Rhs[0], len(x.Lhs))
	} else {
		for _, r := range x.Rhs {
			vals = append(vals, c.eval(st, r))
		}
	}
	// lock := &x.locks[i]: remember what the pointer denotes
	if len(x.Lhs) == 1 && len(x.Rhs) == 1 {
		if ue, ok := ast.Unparen(x.Rhs[0]).(*ast.UnaryExpr); ok && ue.Op == token.AND {
			if id, ok := x.Lhs[0].(*ast.Ident); ok {
				if isLockType(derefType(c.typeOf(x.Rhs[0]))) {
					if obj := c.info.ObjectOf(id); obj != nil {
						k, idx, fk := c.lockKeyOf(st, ue.X)
						na := map[types.Object]lockAliasT{}
						for a, b := range st.lockAlias {
							na[a] = b
						}
						na[obj] = lockAliasT{k, idx, fk}
						st.lockAlias = na
					}
				}
			}
		}
	}
	for i, l := range x.Lhs {
		if i >= len(vals) {
			break
		}
		if x.Tok == token.DEFINE {
			if id, ok := l.(*ast.Ident); ok {
				if id.Name == "_" {
					continue
				}
				if obj := c.info.Defs[id]; obj != nil {
					t := c.convert(st, vals[i], obj.Type())
					u.varSet(st, obj, u.define(st, id.Name, t))
					continue
				}
			}
		}
		c.assignTo(st, l, vals[i])
	}
}

// assignTo stores v into the l-value expression lhs.
func (c *ExecCtx) assignTo(st *State, lhs ast.Expr, v Val) {
	u := c.u
	tm := u.eng.tm
	switch x := ast.Unparen(lhs).(type) {
	case *ast.Ident:
		if x.Name == "_" {
			return
		}
		obj, _ := c.info.ObjectOf(x).(*types.Var)
		if obj == nil {
			return
		}
		t := c.convert(st, v, obj.Type())
		if isPkgLevel(obj) {
			u.heapSet(st, "G."+sanitize(obj.Pkg().Path())+"."+obj.Name(), t)
			return
		}
		if cur, ok := st.vars[obj]; ok && cur.Sort == "BOX" {
			c.storeThrough(st, cur.Args[0], obj.Type(), t)
			return
		}
		u.varSet(st, obj, u.define(st, x.Name, t))
	case *ast.SelectorExpr:
		sel, ok := c.info.Selections[x]
		if !ok {
			// package-level var
			if obj, ok := c.info.Uses[x.Sel].(*types.Var); ok {
				u.heapSet(st, "G."+sanitize(obj.Pkg().Path())+"."+obj.Name(), c.convert(st, v, obj.Type()))
			}
			return
		}
		path := sel.Index()
		baseV := c.eval(st, x.X)
		// walk to the last container
		cur := baseV
		var chain []Val // struct values along a by-value path (for write back)
		var chainIdx []int
		for k, idx := range path {
			last := k == len(path)-1
			t := unalias(cur.Ty)
			if pt, ok := t.Underlying().(*types.Pointer); ok {
				elem := pt.Elem()
				_, stt := structOf(elem)
				if stt == nil {
					u.unsupportedf(x.Pos(), "assign through pointer to non-struct")
					return
				}
				c.nilCheck(st, cur.T, x.Pos(), "field write ."+stt.Field(idx).Name())
				f := stt.Field(idx)
				if last {
					c.heapFieldWrite(st, cur.T, elem, idx, c.convert(st, v, f.Type()))
					return
				}
				nv := c.heapFieldRead(st, cur.T, elem, idx)
				// subsequent by-value path hangs off this heap cell
				chain = nil
				chainIdx = nil
				cur = Val{nv, f.Type()}
				// remember heap root for write back
				if _, isPtr := unalias(f.Type()).Underlying().(*types.Pointer); !isPtr {
					// by-value struct stored in heap: write back at the end
					root := heapRoot{ref: baseRef(cur), structT: elem, field: idx}
					_ = root
					c.assignNestedHeap(st, x, v)
					return
				}
				continue
			}
			_, stt := structOf(t)
			if stt == nil {
				u.unsupportedf(x.Pos(), "assign to field of non-struct")
				return
			}
			chain = append(chain, cur)
			chainIdx = append(chainIdx, idx)
			cur = Val{tm.FieldGet(cur.T, t, idx), stt.Field(idx).Type()}
			_ = last
		}
		// by-value path: rebuild structs inside out, then assign to x.X
		nv := c.convert(st, v, cur.Ty)
		for k := len(chain) - 1; k >= 0; k-- {
			r := tm.FieldSet(chain[k].T, chain[k].Ty, chainIdx[k], nv)
			if r == nil {
				r = u.fresh("opqset", chain[k].T.Sort)
			}
			nv = r
		}
		if len(chain) > 0 {
			saved := u.fieldWrite
			if _, isIdent := ast.Unparen(x.X).(*ast.Ident); isIdent && len(chain) >= 1 && u.elemWrite == 0 {
				u.fieldWrite = chainIdx[0]
			}
			c.assignTo(st, x.X, Val{nv, chain[0].Ty})
			u.fieldWrite = saved
		}
	case *ast.IndexExpr:
		base := c.eval(st, x.X)
		switch bt := unalias(base.Ty).Underlying().(type) {
		case *types.Slice:
			idx := c.eval(st, x.Index)
			c.boundsCheck(st, idx.T, slLen(base.T), x.Pos(), "index (write)")
			nv := mkSlice(base.T.Sort, Store(slArr(base.T), idx.T, c.convert(st, v, bt.Elem())), slLen(base.T), slCap(base.T), slNil(base.T))
			u.elemWrite++
			c.assignTo(st, x.X, Val{nv, base.Ty})
			u.elemWrite--
		case *types.Array:
			idx := c.eval(st, x.Index)
			c.boundsCheck(st, idx.T, IntLit(bt.Len()), x.Pos(), "array index (write)")
			c.assignTo(st, x.X, Val{Store(base.T, idx.T, c.convert(st, v, bt.Elem())), base.Ty})
		case *types.Map:
			k := c.convert(st, c.eval(st, x.Index), bt.Key())
			c.mapStore(st, base, k, c.convert(st, v, bt.Elem()), x.Pos())
		case *types.Pointer:
			if at, ok := unalias(bt.Elem()).Underlying().(*types.Array); ok {
				arr := c.deref(st, base, x.Pos())
				idx := c.eval(st, x.Index)
				c.boundsCheck(st, idx.T, IntLit(at.Len()), x.Pos(), "array index (write)")
				c.storeThrough(st, base.T, bt.Elem(), Store(arr.T, idx.T, c.convert(st, v, at.Elem())))
				return
			}
			u.unsupportedf(x.Pos(), "index assign on %s", base.Ty)
		default:
			u.unsupportedf(x.Pos(), "index assign on %s", base.Ty)
		}
	case *ast.StarExpr:
		p := c.eval(st, x.X)
		pt, ok := unalias(p.Ty).Underlying().(*types.Pointer)
		if !ok {
			u.unsupportedf(x.Pos(), "assign through non-pointer")
			return
		}
		c.nilCheck(st, p.T, x.Pos(), "store through pointer")
		c.storeThrough(st, p.T, pt.Elem(), c.convert(st, v, pt.Elem()))
	default:
		u.unsupportedf(lhs.Pos(), "assignment to %T", lhs)
	}
}

type heapRoot struct {
	ref     *Term
	structT types.Type
	field   int
}

func baseRef(v Val) *Term { return v.T }

// assignNestedHeap handles x.a.b = v where a is a by-value struct stored in a
// heap object: read the struct, update, write back.
func (c *ExecCtx) assignNestedHeap(st *State, x *ast.SelectorExpr, v Val) {
	u := c.u
	tm := u.eng.tm
	sel := c.info.Selections[x]
	path := sel.Index()
	cur := c.eval(st, x.X)
	// find last pointer hop
	type hop struct {
		val Val
		idx int
	}
	var hops []hop
	for _, idx := range path {
		hops = append(hops, hop{cur, idx})
		t := unalias(cur.Ty)
		if pt, ok := t.Underlying().(*types.Pointer); ok {
			_, stt := structOf(pt.Elem())
			cur = Val{c.heapFieldRead(st, cur.T, pt.Elem(), idx), stt.Field(idx).Type()}
		} else {
			_, stt := structOf(t)
			cur = Val{tm.FieldGet(cur.T, t, idx), stt.Field(idx).Type()}
		}
	}
	nv := c.convert(st, v, cur.Ty)
	for k := len(hops) - 1; k >= 0; k-- {
		h := hops[k]
		t := unalias(h.val.Ty)
		if pt, ok := t.Underlying().(*types.Pointer); ok {
			c.heapFieldWrite(st, h.val.T, pt.Elem(), h.idx, nv)
			return
		}
		r := tm.FieldSet(h.val.T, t, h.idx, nv)
		if r == nil {
			r = u.fresh("opqset", h.val.T.Sort)
		}
		nv = r
	}
	c.assignTo(st, x.X, Val{nv, hops[0].val.Ty})
}

func (c *ExecCtx) execIf(st *State, x *ast.IfStmt) []*State {
	if x.Init != nil {
		sts := c.execStmt(st, x.Init)
		if len(sts) == 0 {
			return nil
		}
		if len(sts) > 1 {
			var out []*State
			for _, s := range sts {
				out = append(out, c.execIfCond(s, x)...)
			}
			return out
		}
		st = sts[0]
	}
	return c.execIfCond(st, x)
}

func (c *ExecCtx) execIfCond(st *State, x *ast.IfStmt) []*State {
	cond := c.eval(st, x.Cond)
	if st.dead {
		return nil
	}
	base := len(st.assume)
	thenSt := st.fork()
	thenSt.assumeT(cond.T)
	elseSt := st.fork()
	elseSt.assumeT(Not(cond.T))
	var outs []*State
	if !thenSt.dead {
		outs = append(outs, c.execBlock([]*State{thenSt}, x.Body.List)...)
	}
	if !elseSt.dead {
		if x.Else != nil {
			outs = append(outs, c.execStmt(elseSt, x.Else)...)
		} else {
			outs = append(outs, elseSt)
		}
	}
	return c.u.mergeOrKeep(base, outs)
}

func (c *ExecCtx) execReturn(st *State, x *ast.ReturnStmt) {
	u := c.u
	nres := len(c.results)
	if len(x.Results) == 0 {
		// named results (or none)
		st.results = nil
		for _, r := range c.results {
			st.results = append(st.results, c.readVar(st, r))
		}
	} else if len(x.Results) == 1 && nres > 1 {
		vals := c.evalMulti(st, x.Results[0], nres)
		st.results = nil
		for i, r := range c.results {
			st.results = append(st.results, Val{c.convert(st, vals[i], r.Type()), r.Type()})
		}
	} else {
		var vals []Val
		for _, r := range x.Results {
			vals = append(vals, c.eval(st, r))
		}
		st.results = nil
		for i, r := range c.results {
			if i < len(vals) {
				st.results = append(st.results, Val{c.convert(st, vals[i], r.Type()), r.Type()})
			}
		}
	}
	if st.dead {
		return
	}
	// named results are assigned before deferred functions run
	for i, r := range c.results {
		if i < len(st.results) {
			u.varSet(st, r, st.results[i].T)
		}
	}
	c.returns = append(c.returns, st)
}

func (c *ExecCtx) execBranch(st *State, x *ast.BranchStmt) {
	label := ""
	if x.Label != nil {
		label = x.Label.Name
	}
	switch x.Tok {
	case token.BREAK:
		for i := len(c.loops) - 1; i >= 0; i-- {
			l := c.loops[i]
			if label == "" || l.label == label {
				l.breaks = append(l.breaks, st)
				return
			}
		}
	case token.CONTINUE:
		for i := len(c.loops) - 1; i >= 0; i-- {
			l := c.loops[i]
			if l.isSwitch {
				continue
			}
			if label == "" || l.label == label {
				l.continues = append(l.continues, st)
				return
			}
		}
	case token.FALLTHROUGH:
		c.u.unsupportedf(x.Pos(), "fallthrough")
		return
	case token.GOTO:
		c.u.unsupportedf(x.Pos(), "goto")
		return
	}
	c.u.unsupportedf(x.Pos(), "branch target not found")
}

func (c *ExecCtx) execSwitch(st *State, x *ast.SwitchStmt, label string) []*State {
	u := c.u
	if x.Init != nil {
		sts := c.execStmt(st, x.Init)
		if len(sts) != 1 {
			if len(sts) == 0 {
				return nil
			}
			u.unsupportedf(x.Pos(), "switch init forks")
		}
		st = sts[0]
	}
	var tag *Val
	if x.Tag != nil {
		v := c.eval(st, x.Tag)
		tag = &v
	}
	base := len(st.assume)
	lc := &loopCtx{label: label, isSwitch: true}
	c.loops = append(c.loops, lc)
	var outs []*State
	rest := st // state in which no earlier case matched
	clauses := x.Body.List
	// entry states per clause (condition matched, or fallen through)
	entry := make([][]*State, len(clauses))
	defaultIdx := -1
	for i, cl := range clauses {
		cc := cl.(*ast.CaseClause)
		if cc.List == nil {
			defaultIdx = i
			continue
		}
		if rest.dead {
			continue
		}
		var conds []*Term
		cs := rest.fork()
		for _, e := range cc.List {
			v := c.eval(cs, e)
			if tag != nil {
				conds = append(conds, c.binop(cs, token.EQL, *tag, v, types.Typ[types.Bool], e.Pos()).T)
			} else {
				conds = append(conds, v.T)
			}
		}
		cond := Or(conds...)
		next := cs.fork()
		cs.assumeT(cond)
		next.assumeT(Not(cond))
		if !cs.dead {
			entry[i] = append(entry[i], cs)
		}
		rest = next
	}
	if !rest.dead {
		if defaultIdx >= 0 {
			entry[defaultIdx] = append(entry[defaultIdx], rest)
		} else {
			outs = append(outs, rest)
		}
	}
	for i, cl := range clauses {
		cc := cl.(*ast.CaseClause)
		if len(entry[i]) == 0 {
			continue
		}
		body := cc.Body
		falls := false
		if n := len(body); n > 0 {
			if bs, ok := body[n-1].(*ast.BranchStmt); ok && bs.Tok == token.FALLTHROUGH {
				falls = true
				body = body[:n-1]
			}
		}
		res := c.execBlock(entry[i], body)
		if falls && i+1 < len(clauses) {
			entry[i+1] = append(entry[i+1], res...)
		} else {
			outs = append(outs, res...)
		}
	}
	c.loops = c.loops[:len(c.loops)-1]
	outs = append(outs, lc.breaks...)
	return u.mergeOrKeep(base, outs)
}

func (c *ExecCtx) execTypeSwitch(st *State, x *ast.TypeSwitchStmt, label string) []*State {
	u := c.u
	if x.Init != nil {
		sts := c.execStmt(st, x.Init)
		if len(sts) == 0 {
			return nil
		}
		st = sts[0]
	}
	var subject ast.Expr
	var bindName *ast.Ident
	switch a := x.Assign.(type) {
	case *ast.ExprStmt:
		subject = a.X.(*ast.TypeAssertExpr).X
	case *ast.AssignStmt:
		subject = a.Rhs[0].(*ast.TypeAssertExpr).X
		bindName = a.Lhs[0].(*ast.Ident)
	}
	_ = bindName
	v := c.eval(st, subject)
	u.eng.d.Fun("dyntype", []string{SInt}, SInt)
	base := len(st.assume)
	lc := &loopCtx{label: label, isSwitch: true}
	c.loops = append(c.loops, lc)
	var outs []*State
	rest := st
	var defaultClause *ast.CaseClause
	for _, cl := range x.Body.List {
		cc := cl.(*ast.CaseClause)
		if cc.List == nil {
			defaultClause = cc
			continue
		}
		var conds []*Term
		var single types.Type
		for _, e := range cc.List {
			if id, ok := e.(*ast.Ident); ok && id.Name == "nil" {
				conds = append(conds, Eq(v.T, IntLit(0)))
				continue
			}
			t := c.typeOf(e)
			single = t
			if isInterface(t) {
				conds = append(conds, And(Ne(v.T, IntLit(0)), u.fresh("implements", SBool)))
			} else {
				conds = append(conds, And(Ne(v.T, IntLit(0)), Eq(App("dyntype", SInt, v.T), c.typeTag(t))))
			}
		}
		cond := Or(conds...)
		cs := rest.fork()
		next := rest.fork()
		cs.assumeT(cond)
		next.assumeT(Not(cond))
		if obj := c.info.Implicits[cc]; obj != nil {
			if len(cc.List) == 1 && single != nil && !isInterface(single) {
				u.varSet(cs, obj, c.unbox(v.T, single))
			} else {
				u.varSet(cs, obj, v.T)
			}
		}
		if !cs.dead {
			outs = append(outs, c.execBlock([]*State{cs}, cc.Body)...)
		}
		rest = next
	}
	if !rest.dead {
		if defaultClause != nil {
			if obj := c.info.Implicits[defaultClause]; obj != nil {
				u.varSet(rest, obj, v.T)
			}
			outs = append(outs, c.execBlock([]*State{rest}, defaultClause.Body)...)
		} else {
			outs = append(outs, rest)
		}
	}
	c.loops = c.loops[:len(c.loops)-1]
	outs = append(outs, lc.breaks...)
	return u.mergeOrKeep(base, outs)
}

// ---------------------------------------------------------------------------
// loops

type loopInfo struct {
	key     string // ordinal
	overKey string // "over <expr>"
	spec    *LoopSpec
	node    ast.Node
}

func (c *ExecCtx) loopSpecFor(node ast.Node, rangeX ast.Expr) (*LoopSpec, string) {
	// the ordinal of a loop statement is fixed at its first encounter: a loop
	// reached again by another (unmerged) state keeps its number
	if c.loopIdx == nil {
		c.loopIdx = map[ast.Node]int{}
	}
	ord, seen := c.loopIdx[node]
	if !seen {
		ord = c.loopOrd
		c.loopOrd++
		c.loopIdx[node] = ord
	} else if c.loopOrd <= ord {
		c.loopOrd = ord + 1
	}
	if c.spec == nil {
		return nil, fmt.Sprint(ord)
	}
	if rangeX != nil {
		k := "over " + exprString(rangeX)
		if ls, ok := c.spec.Loops[k]; ok {
			ls.used = true
			return ls, k
		}
	}
	k := fmt.Sprint(ord)
	if ls, ok := c.spec.Loops[k]; ok {
		ls.used = true
		return ls, k
	}
	return nil, k
}

// dryRun executes body once without emitting obligations to find what it modifies.
func (c *ExecCtx) dryRun(st *State, body func(*State) []*State) *recorder {
	u := c.u
	saved := u.recording
	rec := &recorder{vars: map[types.Object]bool{}, heaps: map[string]bool{}, ghost: map[string]bool{}, refs: map[string][]*Term{}, whole: map[string]bool{}, startSym: u.eng.nsym, elemOnly: map[types.Object]bool{}, fullVar: map[types.Object]bool{}, fieldOnly: map[types.Object]map[int]bool{}}
	u.recording = rec
	u.quiet++
	savedLoops := c.loops
	savedReturns := c.returns
	savedOrd, savedLit := c.loopOrd, c.litOrd
	// labelled break/continue out of the dry-run body must not leak states
	// into the enclosing loops
	type lcLen struct{ b, c int }
	lens := make([]lcLen, len(c.loops))
	for i, l := range c.loops {
		lens[i] = lcLen{len(l.breaks), len(l.continues)}
	}
	s := st.fork()
	body(s)
	c.loops = savedLoops
	for i, l := range c.loops {
		l.breaks, l.continues = l.breaks[:lens[i].b], l.continues[:lens[i].c]
	}
	c.returns = savedReturns
	c.loopOrd, c.litOrd = savedOrd, savedLit
	u.quiet--
	u.recording = saved
	if saved != nil {
		for k := range rec.vars {
			saved.vars[k] = true
		}
		for k := range rec.heaps {
			saved.heaps[k] = true
		}
		for k := range rec.ghost {
			saved.ghost[k] = true
		}
		for k, v := range rec.refs {
			if saved.refs != nil {
				saved.refs[k] = append(saved.refs[k], v...)
			}
		}
		for k := range rec.whole {
			if saved.whole != nil {
				saved.whole[k] = true
			}
		}
		for k := range rec.elemOnly {
			if saved.elemOnly != nil {
				saved.elemOnly[k] = true
			}
		}
		for k := range rec.fullVar {
			if saved.fullVar != nil {
				saved.fullVar[k] = true
			}
		}
		for k, fs := range rec.fieldOnly {
			if saved.fieldOnly != nil {
				if saved.fieldOnly[k] == nil {
					saved.fieldOnly[k] = map[int]bool{}
				}
				for f := range fs {
					saved.fieldOnly[k][f] = true
				}
			}
		}
	}
	return rec
}

// havocRec replaces everything recorded as modified by fresh values.
// havocWhole forgets everything recorded as modified, without any precision.
func (c *ExecCtx) havocWhole(st *State, rec *recorder) {
	u := c.u
	for obj := range rec.vars {
		cur, ok := st.vars[obj]
		if !ok || cur.Sort == "BOX" {
			continue
		}
		t := u.fresh("w_"+obj.Name(), cur.Sort)
		st.vars[obj] = t
		c.typeFacts(st, t, obj.Type())
	}
	for h := range rec.heaps {
		cur, ok := st.heaps[h]
		if !ok {
			cur = u.initHeap[h]
		}
		if cur == nil {
			continue
		}
		st.heaps[h] = u.fresh("w_"+h, cur.Sort)
	}
	for g := range rec.ghost {
		if cur, ok := st.ghost[g]; ok {
			st.ghost[g] = u.fresh("wg_"+g, cur.Sort)
		}
	}
}

var allocAtEntry = map[*State]*Term{}

func (c *ExecCtx) havocRec(st *State, rec *recorder) {
	u := c.u
	allocAtEntry[st] = u.heapGet(st, "$alloc", ArraySort(SInt, SBool))
	defer delete(allocAtEntry, st)
	for obj := range rec.vars {
		cur, ok := st.vars[obj]
		if !ok {
			continue // declared inside the loop
		}
		if cur.Sort == "BOX" {
			continue
		}
		t := u.fresh("h_"+obj.Name(), cur.Sort)
		st.vars[obj] = t
		c.typeFacts(st, t, obj.Type())
		if rec.elemOnly[obj] && !rec.fullVar[obj] {
			if _, ok := unalias(obj.Type()).Underlying().(*types.Slice); ok {
				st.assumeT(And(Eq(slLen(t), slLen(cur)), Eq(slCap(t), slCap(cur)), Eq(slNil(t), slNil(cur))))
			}
		}
		if fs := rec.fieldOnly[obj]; len(fs) > 0 && !rec.fullVar[obj] && !rec.elemOnly[obj] {
			if _, stt := structOf(obj.Type()); stt != nil && u.eng.tm.isTransparentStruct(obj.Type()) {
				for j := 0; j < stt.NumFields(); j++ {
					if !fs[j] {
						st.assumeT(Eq(u.eng.tm.FieldGet(t, obj.Type(), j), u.eng.tm.FieldGet(cur, obj.Type(), j)))
					}
				}
			}
		}
	}
	for h := range rec.heaps {
		cur, ok := st.heaps[h]
		if !ok {
			cur = u.initHeap[h]
		}
		if cur == nil {
			continue
		}
		if h == "$alloc" {
			na := u.fresh("alloc", cur.Sort)
			x := Sym("x!a", SInt)
			st.assumeT(Forall([]*Term{x}, Imp(Select(cur, x), Select(na, x)), []*Term{Select(na, x)}))
			st.heaps[h] = na
			continue
		}
		// if every write went to loop-invariant object references, only
		// those objects are forgotten
		if refs, ok := rec.refs[h]; ok && !rec.whole[h] && len(refs) > 0 && len(refs) <= 8 && allInvariant(refs, rec.startSym) {
			_, vs, _ := arrayParts(cur.Sort)
			nh := cur
			seen := map[string]bool{}
			for _, r := range refs {
				if seen[r.String()] {
					continue
				}
				seen[r.String()] = true
				nh = Store(nh, r, u.fresh("hho_"+h, vs))
			}
			u.immutKeep(st, h, cur, nh)
			st.heaps[h] = nh
			continue
		}
		// writes only to loop-invariant refs or to objects allocated inside
		// the loop: everything allocated before the loop (other than the
		// invariant refs) is unchanged
		if refs, ok := rec.refs[h]; ok && !rec.whole[h] && len(refs) > 0 && len(refs) <= 16 {
			var inv []*Term
			okAll := true
			for _, r := range refs {
				if allInvariant([]*Term{r}, rec.startSym) {
					inv = append(inv, r)
				} else if !(r.Op == "sym" && strings.HasPrefix(r.Name, "new_")) {
					okAll = false
				}
			}
			if okAll && len(inv) <= 6 {
				if _, _, isArr := arrayParts(cur.Sort); isArr {
					nh := u.fresh("hhf_"+h, cur.Sort)
					al := st.heaps["$alloc"]
					if pre, ok := allocAtEntry[st]; ok {
						al = pre
					}
					if al == nil {
						al = u.heapGet(st, "$alloc", ArraySort(SInt, SBool))
					}
					x := Sym("x!h", SInt)
					cond := []*Term{Select(al, x)}
					for _, r := range inv {
						cond = append(cond, Ne(x, r))
					}
					st.assumeT(Forall([]*Term{x}, Imp(And(cond...), Eq(Select(nh, x), Select(cur, x))), []*Term{Select(nh, x)}))
					u.immutKeep(st, h, cur, nh)
					st.heaps[h] = nh
					continue
				}
			}
		}
		nhh := u.fresh("hh_"+h, cur.Sort)
		u.immutKeep(st, h, cur, nhh)
		st.heaps[h] = nhh
	}
	for g := range rec.ghost {
		if cur, ok := st.ghost[g]; ok {
			st.ghost[g] = u.fresh("hg_"+g, cur.Sort)
		}
	}
}

// runLoop is the generic cut-point scheme.
//   head(st) -> (cond term or nil, per-iteration setup executed in st)
//   body(st) -> resulting normal states
//   post(st) -> statement executed after body and on continue (may be nil)
func (c *ExecCtx) runLoop(st *State, node ast.Node, label string, ls *LoopSpec, lkey string,
	extraInv func(*State) []*Term,
	head func(*State) *Term, body func(*State) []*State, post func(*State) []*State, binds map[string]Val) []*State {

	u := c.u
	pos := node.Pos()
	if fs, ok := node.(*ast.ForStmt); ok && fs.Init != nil {
		// variables declared by the init statement are in scope from the body on
		pos = fs.Body.Lbrace
	}
	c.loopBinds = append(c.loopBinds, binds)
	defer func() { c.loopBinds = c.loopBinds[:len(c.loopBinds)-1] }()
	// 1. what does one iteration modify?
	iter := func(s *State) []*State {
		lc := &loopCtx{label: label}
		c.loops = append(c.loops, lc)
		cond := head(s)
		if cond != nil {
			s.assumeT(cond)
		}
		outs := body(s)
		c.loops = c.loops[:len(c.loops)-1]
		outs = append(outs, lc.continues...)
		if post != nil {
			var o2 []*State
			for _, o := range outs {
				if !o.dead {
					o2 = append(o2, post(o)...)
				}
			}
			outs = o2
		}
		return outs
	}
	rec1 := c.dryRun(st, iter)
	// Second dry run from a state in which everything the loop modifies is
	// already arbitrary: only then do the recorded object references tell
	// which writes go to loop-invariant objects (a reference read through a
	// loop-carried variable is different in later iterations).
	h0 := st.fork()
	start2 := u.eng.nsym
	c.havocWhole(h0, rec1)
	rec := c.dryRun(h0, iter)
	rec.startSym = start2
	for k := range rec1.vars {
		rec.vars[k] = true
	}
	for k := range rec1.heaps {
		rec.heaps[k] = true
		if _, ok := rec.refs[k]; !ok {
			rec.whole[k] = true
		}
	}
	for k := range rec1.ghost {
		rec.ghost[k] = true
	}
	for k := range rec1.whole {
		rec.whole[k] = true
	}
	for k := range rec1.fullVar {
		rec.fullVar[k] = true
	}
	for k := range rec1.elemOnly {
		rec.elemOnly[k] = true
	}
	for k, fs := range rec1.fieldOnly {
		if rec.fieldOnly[k] == nil {
			rec.fieldOnly[k] = map[int]bool{}
		}
		for f := range fs {
			rec.fieldOnly[k][f] = true
		}
	}

	evalInvMode := false
	evalInv := func(s *State, oldS *State) []struct {
		t   *Term
		src string
	} {
		var out []struct {
			t   *Term
			src string
		}
		if ls != nil {
			for _, cl := range ls.Inv {
				var t *Term
				ienv := c.newEnv(binds, pos)
				ienv.midBody = true
				ienv.assuming = evalInvMode
				t = ienv.evalBool(s, oldS, cl.Expr, cl.Where)
				out = append(out, struct {
					t   *Term
					src string
				}{t, cl.Src})
			}
		}
		return out
	}
	// 2. invariant holds on entry
	for _, iv := range evalInv(st, c.oldState) {
		u.oblige(st, "inv.init", iv.t, pos, fmt.Sprintf("loop %s invariant on entry: %s", lkey, iv.src))
	}
	// 3. arbitrary iteration
	h := st.fork()
	c.havocRec(h, rec)
	if extraInv != nil {
		for _, t := range extraInv(h) {
			h.assumeT(t)
		}
	}
	evalInvMode = true
	for _, iv := range evalInv(h, c.oldState) {
		if os.Getenv("GOVC_DEBUG") != "" {
			fmt.Fprintln(os.Stderr, "assume-inv", lkey, iv.src, "=>", iv.t.String())
		}
		h.assumeT(iv.t)
	}
	evalInvMode = false
	// automatic frame invariant for functions with an explicit modifies clause
	var frameHeaps []string
	var frameAllowed map[string][]*Term
	if c.spec != nil && c.depth == 0 && c.spec.HasModifies && !c.spec.ModifiesAll && c.oldState != nil {
		env := c.newEnv(nil, pos)
		var all map[string]bool
		frameAllowed, all = c.frameAllowed(env)
		for hn := range rec.heaps {
			if hn == "$alloc" || strings.HasPrefix(hn, "C.") || strings.HasPrefix(hn, "G.") || all[hn] {
				continue
			}
			// only heaps that had to be forgotten wholesale need the invariant
			if cur, ok := h.heaps[hn]; !ok || cur.Op != "sym" || !strings.HasPrefix(cur.Name, "hh_") {
				continue
			}
			frameHeaps = append(frameHeaps, hn)
		}
		if os.Getenv("GOVC_DEBUG") != "" {
			fmt.Fprintln(os.Stderr, "frame-inv", u.name, lkey, "rec.heaps", len(rec.heaps), "frameHeaps", frameHeaps)
			for hn := range rec.heaps {
				cur := h.heaps[hn]
				fmt.Fprintln(os.Stderr, "   ", hn, cur)
			}
		}
		sort.Strings(frameHeaps)
		for _, hn := range frameHeaps {
			// holds at the loop head: checked on entry, assumed for the arbitrary iteration
			if cur, ok := st.heaps[hn]; ok {
				u.oblige(st, "frame.inv", c.frameFormula(hn, cur, frameAllowed), pos, "loop "+lkey+" frame on entry: "+hn)
			}
			if cur, ok := h.heaps[hn]; ok {
				h.assumeT(c.frameFormula(hn, cur, frameAllowed))
			}
		}
	}
	var decBefore *Term
	if ls != nil && ls.Decreases != nil {
		decBefore = u.define(h, "variant", c.specInt(h, c.oldState, *ls.Decreases, pos, binds))
	}
	exitSt := h.fork()
	// iteration
	lc := &loopCtx{label: label}
	c.loops = append(c.loops, lc)
	cond := head(h)
	var bodyOuts []*State
	if cond != nil {
		h.assumeT(cond)
	}
	if !h.dead {
		bodyOuts = body(h)
	}
	c.loops = c.loops[:len(c.loops)-1]
	bodyOuts = append(bodyOuts, lc.continues...)
	if post != nil {
		var o2 []*State
		for _, o := range bodyOuts {
			if !o.dead {
				o2 = append(o2, post(o)...)
			}
		}
		bodyOuts = o2
	}
	for _, o := range bodyOuts {
		if o.dead {
			continue
		}
		if extraInv != nil {
			// built-in facts are maintained by construction (not obligations)
		}
		for _, iv := range evalInv(o, c.oldState) {
			u.oblige(o, "inv.step", iv.t, pos, fmt.Sprintf("loop %s invariant preserved: %s", lkey, iv.src))
		}
		// lock balance of one iteration: the next iteration starts with the
		// lock set of the loop head (a lock taken in the body and still held
		// at the end of the iteration - e.g. a `continue` that skips the
		// unlock - is leaked: nothing releases it later)
		{
			var leaked, dropped []string
			for k := range o.locks {
				if _, ok := exitSt.locks[k]; !ok {
					leaked = append(leaked, k)
				}
			}
			for k := range exitSt.locks {
				if _, ok := o.locks[k]; !ok {
					dropped = append(dropped, k)
				}
			}
			sort.Strings(leaked)
			sort.Strings(dropped)
			if len(leaked) > 0 {
				u.obligeStatic(o, "lock", false, pos, "loop "+lkey+": lock still held at the end of an iteration: "+strings.Join(leaked, ", "))
			}
			if len(dropped) > 0 {
				u.obligeStatic(o, "lock", false, pos, "loop "+lkey+": lock held at the loop head released by an iteration: "+strings.Join(dropped, ", "))
			}
			var conds []*Term
			var cks []string
			for _, cl := range o.condLocks {
				at := false
				for _, hcl := range exitSt.condLocks {
					if hcl.key == cl.key {
						at = true
					}
				}
				if !at {
					conds = append(conds, Not(cl.cond))
					cks = append(cks, cl.key)
				}
			}
			if len(conds) > 0 {
				u.oblige(o, "lock", And(conds...), pos, "loop "+lkey+": conditionally acquired lock still held at the end of an iteration: "+strings.Join(cks, ", "))
			}
		}
		for _, hn := range frameHeaps {
			if cur, ok := o.heaps[hn]; ok {
				u.oblige(o, "frame.inv", c.frameFormula(hn, cur, frameAllowed), pos, "loop "+lkey+" frame preserved: "+hn)
			}
		}
		if decBefore != nil {
			after := c.specInt(o, c.oldState, *ls.Decreases, pos, binds)
			u.oblige(o, "decreases", And(Ge(decBefore, IntLit(0)), Lt(after, decBefore)), pos, fmt.Sprintf("loop %s variant decreases: %s", lkey, ls.Decreases.Src))
		}
	}
	// 4. exit: havoced state with invariant and negated condition, plus breaks
	var outs []*State
	if cond != nil || true {
		ex := exitSt
		lcx := &loopCtx{label: label}
		c.loops = append(c.loops, lcx)
		u.quiet++
		cx := head(ex)
		u.quiet--
		c.loops = c.loops[:len(c.loops)-1]
		if cx != nil {
			ex.assumeT(Not(cx))
			if !ex.dead {
				outs = append(outs, ex)
			}
		}
	}
	outs = append(outs, lc.breaks...)
	return outs
}

func (c *ExecCtx) execFor(st *State, x *ast.ForStmt, label string) []*State {
	if x.Init != nil {
		sts := c.execStmt(st, x.Init)
		if len(sts) == 0 {
			return nil
		}
		st = sts[0]
	}
	ls, lkey := c.loopSpecFor(x, nil)
	head := func(s *State) *Term {
		if x.Cond == nil {
			return nil
		}
		return c.eval(s, x.Cond).T
	}
	bodyOrd, bodyLit := c.loopOrd, c.litOrd
	body := func(s *State) []*State {
		c.loopOrd, c.litOrd = bodyOrd, bodyLit
		return c.execBlock([]*State{s}, x.Body.List)
	}
	var post func(*State) []*State
	if x.Post != nil {
		post = func(s *State) []*State { return c.execStmt(s, x.Post) }
	}
	if x.Cond == nil {
		// for { ... }: exits only via break/return
		outs := c.runLoop(st, x, label, ls, lkey, nil, func(s *State) *Term { return nil }, body, post, nil)
		return outs
	}
	return c.runLoop(st, x, label, ls, lkey, nil, head, body, post, nil)
}

func (c *ExecCtx) execRange(st *State, x *ast.RangeStmt, label string) []*State {
	u := c.u
	tm := u.eng.tm
	ls, lkey := c.loopSpecFor(x, x.X)
	xt := unalias(c.typeOf(x.X)).Underlying()
	var keyObj, valObj types.Object
	define := x.Tok == token.DEFINE
	getObj := func(e ast.Expr) types.Object {
		if e == nil {
			return nil
		}
		id, ok := e.(*ast.Ident)
		if !ok || id.Name == "_" {
			return nil
		}
		if define {
			return c.info.Defs[id]
		}
		return c.info.ObjectOf(id)
	}
	keyObj, valObj = getObj(x.Key), getObj(x.Value)
	bodyOrd, bodyLit := c.loopOrd, c.litOrd
	body := func(s *State) []*State {
		c.loopOrd, c.litOrd = bodyOrd, bodyLit
		return c.execBlock([]*State{s}, x.Body.List)
	}

	switch t := xt.(type) {
	case *types.Slice, *types.Array, *types.Basic, *types.Pointer:
		var n *Term
		var elemAt func(s *State, i *Term) Val
		coll := c.eval(st, x.X)
		switch tt := t.(type) {
		case *types.Slice:
			n = u.define(st, "rlen", slLen(coll.T))
			arr := slArr(coll.T)
			elemAt = func(s *State, i *Term) Val { return c.elemFacts(s, Val{Select(arr, i), tt.Elem()}) }
		case *types.Array:
			n = IntLit(tt.Len())
			elemAt = func(s *State, i *Term) Val { return c.elemFacts(s, Val{Select(coll.T, i), tt.Elem()}) }
		case *types.Pointer:
			at, ok := unalias(tt.Elem()).Underlying().(*types.Array)
			if !ok {
				u.unsupportedf(x.Pos(), "range over %s", coll.Ty)
				return live(st)
			}
			arrV := c.deref(st, coll, x.Pos())
			n = IntLit(at.Len())
			elemAt = func(s *State, i *Term) Val { return Val{Select(arrV.T, i), at.Elem()} }
		case *types.Basic:
			if tt.Info()&types.IsString != 0 {
				// range over string: runes; positions are not consecutive
				n = c.strLen(coll.T)
				elemAt = func(s *State, i *Term) Val {
					r := u.fresh("rune", SInt)
					s.assumeT(Ge(r, IntLit(0)))
					return Val{r, types.Typ[types.Rune]}
				}
			} else if tt.Info()&types.IsInteger != 0 {
				n = coll.T
				elemAt = nil
			} else {
				u.unsupportedf(x.Pos(), "range over %s", coll.Ty)
				return live(st)
			}
		}
		// hidden index variable
		idxName := "$ri"
		idx0 := IntLit(0)
		st.ghost[idxName+lkey] = idx0
		gk := idxName + lkey
		binds := map[string]Val{}
		extra := func(s *State) []*Term {
			i := s.ghost[gk]
			return []*Term{Ge(i, IntLit(0)), Le(i, n)}
		}
		// make the hidden index modified by each iteration
		head := func(s *State) *Term {
			i := s.ghost[gk]
			return Lt(i, n)
		}
		setup := func(s *State) {
			i := s.ghost[gk]
			if keyObj != nil {
				u.varSet(s, keyObj, i)
			}
			if valObj != nil && elemAt != nil {
				v := elemAt(s, i)
				u.varSet(s, valObj, u.define(s, valObj.Name(), c.convert(s, v, valObj.Type())))
			}
		}
		body2 := func(s *State) []*State {
			setup(s)
			return body(s)
		}
		post := func(s *State) []*State {
			u.ghostSet(s, gk, Add(s.ghost[gk], IntLit(1)))
			return []*State{s}
		}
		c.bindLoopNames(binds, gk, n, coll)
		outs := c.runLoop(st, x, label, ls, lkey, extra, head, body2, post, binds)
		for _, o := range outs {
			_ = o
		}
		return outs
	case *types.Map:
		m := c.eval(st, x.X)
		hn, vn, _, ks, vs := c.mapHeaps(t)
		// ghost set of keys already visited: every key is visited at most once
		vk := "$visited" + lkey
		st.ghost[vk] = App("(as const "+ArraySort(ks, SBool)+")", ArraySort(ks, SBool), False)
		gm := types.NewMap(t.Key(), types.Typ[types.Bool])
		ghostMapTypes[gm] = true
		u.ghostTypes[vk] = gm
		binds := map[string]Val{"ʃvisited": {Sym(vk, "GHOSTKEY"), gm}}
		// the map as it was when the loop started (Go: entries added during
		// iteration may or may not be visited; entries removed are not)
		// When the body cannot add entries to any map (no calls other than
		// builtins/conversions, no map stores), the loop ends only after every
		// entry present has been visited.
		quiet := c.mapRangeBodyQuiet(x.Body)
		head := func(s *State) *Term {
			more := u.fresh("more", SBool)
			if quiet {
				kq := Sym("k!v", ks)
				Hq := u.heapGet(s, hn, ArraySort(SInt, ArraySort(ks, SBool)))
				s.assumeT(Imp(Not(more), Forall([]*Term{kq}, Imp(And(Ne(m.T, IntLit(0)), Select(Select(Hq, m.T), kq)), Select(s.ghost[vk], kq)), []*Term{Select(s.ghost[vk], kq)})))
			}
			return more
		}
		body2 := func(s *State) []*State {
			k := u.fresh("mk", ks)
			H := u.heapGet(s, hn, ArraySort(SInt, ArraySort(ks, SBool)))
			s.assumeT(And(Ne(m.T, IntLit(0)), Select(Select(H, m.T), k), Not(Select(s.ghost[vk], k))))
			c.typeFacts(s, k, t.Key())
			u.ghostSet(s, vk, Store(s.ghost[vk], k, True))
			if keyObj != nil {
				u.varSet(s, keyObj, k)
			}
			if valObj != nil {
				V := u.heapGet(s, vn, ArraySort(SInt, ArraySort(ks, vs)))
				v := c.elemFacts(s, Val{Select(Select(V, m.T), k), t.Elem()})
				u.varSet(s, valObj, u.define(s, valObj.Name(), v.T))
			}
			return body(s)
		}
		outs := c.runLoop(st, x, label, ls, lkey, nil, head, body2, nil, binds)
		return outs
	case *types.Chan:
		ch := c.eval(st, x.X)
		head := func(s *State) *Term { return u.fresh("chopen", SBool) }
		body2 := func(s *State) []*State {
			v := c.recvValue(s, ch, x.X, x.Pos())
			if keyObj != nil {
				u.varSet(s, keyObj, v.T)
			}
			return body(s)
		}
		return c.runLoop(st, x, label, ls, lkey, nil, head, body2, nil, nil)
	case *types.Signature:
		// range over func (iterators): abstract finite sequence
		c.eval(st, x.X)
		sig := t
		head := func(s *State) *Term { return u.fresh("more", SBool) }
		body2 := func(s *State) []*State {
			// yield parameters
			if sig.Params().Len() == 1 {
				if yf, ok := unalias(sig.Params().At(0).Type()).Underlying().(*types.Signature); ok {
					if keyObj != nil && yf.Params().Len() > 0 {
						kt := yf.Params().At(0).Type()
						k := u.fresh("itk", tm.SortOf(kt))
						c.typeFacts(s, k, kt)
						u.varSet(s, keyObj, k)
					}
					if valObj != nil && yf.Params().Len() > 1 {
						vt := yf.Params().At(1).Type()
						v := u.fresh("itv", tm.SortOf(vt))
						c.typeFacts(s, v, vt)
						u.varSet(s, valObj, v)
					}
				}
			}
			return body(s)
		}
		return c.runLoop(st, x, label, ls, lkey, nil, head, body2, nil, nil)
	}
	u.unsupportedf(x.Pos(), "range over %s", c.typeOf(x.X))
	return live(st)
}

// mapRangeBodyQuiet: the loop body contains no statement that could add an
// entry to a map: no calls except builtins (other than delete/clear) and
// conversions, no assignment through a map index, no go/defer/func literal.
func (c *ExecCtx) mapRangeBodyQuiet(body *ast.BlockStmt) bool {
	ok := true
	ast.Inspect(body, func(n ast.Node) bool {
		switch x := n.(type) {
		case *ast.FuncLit, *ast.GoStmt, *ast.DeferStmt:
			ok = false
		case *ast.CallExpr:
			if tv, has := c.info.Types[x.Fun]; has && tv.IsType() {
				return true
			}
			if id, isID := ast.Unparen(x.Fun).(*ast.Ident); isID {
				if _, isB := c.info.Uses[id].(*types.Builtin); isB && id.Name != "delete" && id.Name != "clear" {
					return true
				}
			}
			ok = false
		case *ast.AssignStmt:
			for _, l := range x.Lhs {
				if ie, isIdx := ast.Unparen(l).(*ast.IndexExpr); isIdx {
					if _, isMap := unalias(c.typeOf(ie.X)).Underlying().(*types.Map); isMap {
						ok = false
					}
				}
			}
		case *ast.IncDecStmt:
			if ie, isIdx := ast.Unparen(x.X).(*ast.IndexExpr); isIdx {
				if _, isMap := unalias(c.typeOf(ie.X)).Underlying().(*types.Map); isMap {
					ok = false
				}
			}
		}
		return ok
	})
	return ok
}

// bindLoopNames exposes $key (current index) and $len to invariants.
func (c *ExecCtx) bindLoopNames(binds map[string]Val, gk string, n *Term, coll Val) {
	binds["ʃkey"] = Val{Sym(gk, "GHOSTKEY"), types.Typ[types.Int]}
	binds["ʃlen"] = Val{n, types.Typ[types.Int]}
	binds["ʃcoll"] = coll
}


// allInvariant: do the terms only mention symbols created before symbol
// number start (i.e. before the loop was entered)?
func allInvariant(ts []*Term, start int) bool {
	for _, t := range ts {
		syms := map[string]bool{}
		collectSyms(t, syms)
		for s := range syms {
			if i := strings.LastIndex(s, "@"); i >= 0 {
				var n int
				if _, err := fmt.Sscanf(s[i+1:], "%d", &n); err == nil && n > start {
					return false
				}
			}
		}
	}
	return true
}


func isLockType(t types.Type) bool {
	if n, ok := unalias(t).(*types.Named); ok && n.Obj() != nil && n.Obj().Pkg() != nil {
		switch n.Obj().Pkg().Path() + "." + n.Obj().Name() {
		case "sync.Mutex", "sync.RWMutex", modulePath + "/internal.CtxMutex":
			return true
		}
	}
	return false
}
