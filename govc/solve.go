package main

// Discharge: portfolio of z3-new, z3, cvc5.

import (
	"bytes"
	"context"
	"crypto/sha256"
	"fmt"
	"os"
	"os/exec"
	"path/filepath"
	"strings"
	"sync"
	"sync/atomic"
	"time"
)

type solverDef struct {
	name string
	args func(file string, timeoutS int) []string
}

var solvers = []solverDef{
	{"z3-new", func(f string, t int) []string { return []string{"z3-new", fmt.Sprintf("-T:%d", t), f} }},
	{"z3", func(f string, t int) []string { return []string{"z3", fmt.Sprintf("-T:%d", t), f} }},
	{"cvc5", func(f string, t int) []string {
		return []string{"cvc5", fmt.Sprintf("--tlimit=%d", t*1000), "--produce-models", f}
	}},
}

var scriptSeq int64

type solveResult struct {
	status string // unsat, sat, unknown
	solver string
	out    string
	secs   float64
}

func runSolver(ctx context.Context, sd solverDef, file string, timeoutS int) solveResult {
	args := sd.args(file, timeoutS)
	start := time.Now()
	cctx, cancel := context.WithTimeout(ctx, time.Duration(timeoutS+2)*time.Second)
	defer cancel()
	cmd := exec.CommandContext(cctx, args[0], args[1:]...)
	var out bytes.Buffer
	cmd.Stdout = &out
	cmd.Stderr = &out
	_ = cmd.Run()
	s := out.String()
	first := strings.TrimSpace(strings.SplitN(s, "\n", 2)[0])
	st := "unknown"
	switch first {
	case "unsat":
		st = "unsat"
	case "sat":
		st = "sat"
	}
	return solveResult{status: st, solver: sd.name, out: s, secs: time.Since(start).Seconds()}
}

// solveScript: stage 1 = z3-new with a short timeout; stage 2 = race all.
func solveScript(dir, name, script string, timeoutS int) solveResult {
	h := sha256.Sum256([]byte(script))
	file := filepath.Join(dir, fmt.Sprintf("%x-%d.smt2", h[:8], atomic.AddInt64(&scriptSeq, 1)))
	if err := os.WriteFile(file, []byte(script), 0o644); err != nil {
		return solveResult{status: "unknown", out: err.Error()}
	}
	defer os.Remove(file)
	t1 := 2
	if timeoutS < t1 {
		t1 = timeoutS
	}
	r := runSolver(context.Background(), solvers[0], file, t1)
	if r.status != "unknown" {
		return r
	}
	if strings.HasPrefix(strings.TrimSpace(r.out), "(error") {
		// the generated script is ill-formed (engine or spec defect): say so
		// instead of reporting an honest-looking "unknown"
		r.status = "script-error"
		return r
	}
	total := r.secs
	ctx, cancel := context.WithCancel(context.Background())
	defer cancel()
	ch := make(chan solveResult, len(solvers))
	for _, sd := range solvers {
		go func(sd solverDef) { ch <- runSolver(ctx, sd, file, timeoutS) }(sd)
	}
	var last solveResult
	for range solvers {
		rr := <-ch
		if rr.status != "unknown" {
			rr.secs += total
			return rr
		}
		last = rr
	}
	last.secs += total
	last.status = "unknown"
	return last
}

// Discharge solves all open obligations in parallel.
func (e *Engine) Discharge(obls []*Obligation, timeoutS, par int, keepScripts string) {
	dir, err := os.MkdirTemp("", "govc-smt-")
	if err != nil {
		panic(err)
	}
	defer os.RemoveAll(dir)
	var wg sync.WaitGroup
	sem := make(chan struct{}, par)
	for _, ob := range obls {
		if ob.Status != "" {
			continue
		}
		if ob.Static {
			if ob.StaticOK {
				ob.Status = "static"
			} else {
				ob.Status = "failed-static"
			}
			continue
		}
		ob := ob
		wg.Add(1)
		sem <- struct{}{}
		go func() {
			defer wg.Done()
			defer func() { <-sem }()
			script := e.d.Script(ob.Assumes, ob.Goal, true)
			if len(script) > 4<<20 {
				ob.Status = "unknown"
				ob.Model = "script too large"
				return
			}
			if keepScripts != "" {
				os.MkdirAll(keepScripts, 0o755)
				os.WriteFile(filepath.Join(keepScripts, sanitize(ob.Name)+".smt2"), []byte(script), 0o644)
			}
			tmo := timeoutS
			if ob.Kind == "vacuity" && tmo > 10 {
				// reachability canaries only need "not unsat": no point in waiting long
				tmo = 10
			}
			r := solveScript(dir, ob.Name, script, tmo)
			if r.status != "unsat" && r.status != "sat" && ob.Kind != "vacuity" {
				// Nonlinear integer terms (division or product of two symbolic
				// values) make the solvers give up on goals that do not depend
				// on them at all. Retry WITHOUT the assumptions that contain such
				// terms: proving the goal from fewer assumptions is sound.
				var lin []*Term
				dropped := 0
				for _, a := range ob.Assumes {
					if nonlinearTerm(a) {
						dropped++
					} else {
						lin = append(lin, a)
					}
				}
				if dropped > 0 && !nonlinearTerm(ob.Goal) {
					s2 := e.d.Script(lin, ob.Goal, true)
					if r2 := solveScript(dir, ob.Name+"~lin", s2, timeoutS); r2.status == "unsat" {
						r2.solver += " (without nonlinear assumptions)"
						r2.secs += r.secs
						r = r2
					}
				}
			}
			ob.Solver = r.solver
			ob.TimeS = r.secs
			ob.Status = r.status
			if r.status != "unsat" {
				ob.Model = r.out
				ob.Script = script
			}
			// vacuity checks are inverted: the query must NOT be unsat
			if ob.Kind == "vacuity" {
				if r.status == "unsat" {
					ob.Status = "vacuous"
				} else {
					ob.Status = "reachable"
				}
			}
		}()
	}
	wg.Wait()
}

func (ob *Obligation) Discharged() bool {
	switch ob.Status {
	case "unsat", "trivial", "static", "reachable":
		return true
	}
	return false
}

// nonlinearTerm: does t contain a division/modulo by, or a product of, two
// non-literal integer terms?
func nonlinearTerm(t *Term) bool {
	if t == nil {
		return false
	}
	switch t.Op {
	case "div", "mod":
		if len(t.Args) == 2 && t.Args[1].Op != "lit" {
			return true
		}
	case "*":
		n := 0
		for _, a := range t.Args {
			if a.Op != "lit" {
				n++
			}
		}
		if n > 1 {
			return true
		}
	}
	for _, a := range t.Args {
		if nonlinearTerm(a) {
			return true
		}
	}
	return false
}
