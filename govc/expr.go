package main

// Expression evaluation over the typed AST.

import (
	"fmt"
	"go/ast"
	"go/constant"
	"go/token"
	"go/types"
	"strconv"

	"golang.org/x/tools/go/packages"
)

type loopCtx struct {
	label     string
	breaks    []*State
	continues []*State
	isSwitch  bool // break target only
}

type ExecCtx struct {
	u        *Unit
	info     *types.Info
	pkg      *packages.Package
	fn       *FuncInfo
	lit      *ast.FuncLit
	spec     *FuncSpec
	loops    []*loopCtx
	returns  []*State
	results  []*types.Var // named or synthesized result vars
	depth    int
	binds    map[string]Val // spec names -> values (params at entry etc.)
	oldState *State
	localFuncOnly map[types.Object]bool // func-typed locals only used in call position
	loopOrd  int
	litOrd   int
	parent   *ExecCtx
	pendingLabel string
	curPos   token.Pos
	loopBinds []map[string]Val
	paramObjs map[*types.Var]bool // receiver, parameters and results of the unit's function
	headerNames map[string]bool
	ghostPos token.Pos
	lastDynRes []Val
	instSig  *types.Signature
	loopIdx  map[ast.Node]int
	headerObj map[string]*types.Var
	callArgs []Val
	callRecv *Val
	inlinedFunc bool // body of a named function inlined at a call site
	factDepth int
	inDefer  bool
	confined map[*types.Var]token.Pos
	confinedDone bool
}

var NilTerm = &Term{Op: "sym", Name: "$untyped_nil", Sort: "Nil"}

func (c *ExecCtx) typeOf(e ast.Expr) types.Type {
	if tv, ok := c.info.Types[e]; ok && tv.Type != nil {
		return tv.Type
	}
	if id, ok := e.(*ast.Ident); ok {
		if o := c.info.ObjectOf(id); o != nil {
			return o.Type()
		}
	}
	return types.Typ[types.Invalid]
}

func (c *ExecCtx) sortOfType(t types.Type) string { return c.u.eng.tm.SortOf(t) }

func isNilVal(v Val) bool { return v.T == NilTerm }

func isInterface(t types.Type) bool {
	if t == nil {
		return false
	}
	if _, ok := unalias(t).(*types.TypeParam); ok {
		return false
	}
	_, ok := unalias(t).Underlying().(*types.Interface)
	return ok
}

func isPointerLike(t types.Type) bool {
	switch unalias(t).Underlying().(type) {
	case *types.Pointer, *types.Map, *types.Chan, *types.Signature, *types.Interface:
		return true
	case *types.Basic:
		return unalias(t).Underlying().(*types.Basic).Kind() == types.UnsafePointer
	}
	return false
}

// convert coerces v to static type `to` (boxing into interfaces, nil, untyped consts).
func (c *ExecCtx) convert(st *State, v Val, to types.Type) *Term {
	tm := c.u.eng.tm
	if to == nil {
		return v.T
	}
	if isNilVal(v) {
		return tm.Zero(to)
	}
	toSort := tm.SortOf(to)
	if isInterface(to) && v.Ty != nil && !isInterface(v.Ty) {
		if b, ok := v.Ty.(*types.Basic); ok && b.Kind() == types.UntypedNil {
			return IntLit(0)
		}
		return c.box(v)
	}
	if v.T.Sort == toSort {
		return v.T
	}
	// numeric conversions of constants
	if v.T.Sort == SInt && toSort == SF64 {
		return c.f64OfInt(v.T)
	}
	if v.T.Sort == SF64 && toSort == SInt {
		fn := "f64_to_int"
		c.u.eng.d.Fun(fn, []string{SF64}, SInt)
		return App(fn, SInt, v.T)
	}
	// sort mismatch we cannot explain: unknown value of the right sort
	c.u.unsupportedf(c.curPos, "convert %s (%s) to %s", v.T.Sort, v.Ty, toSort)
	return c.u.fresh("conv", toSort)
}

func (c *ExecCtx) f64OfInt(t *Term) *Term {
	fn := "f64_of_int"
	c.u.eng.d.Fun(fn, []string{SInt}, SF64)
	return App(fn, SF64, t)
}

func typeTagName(t types.Type) string { return "tag_" + shortTypeName(t) }

func (c *ExecCtx) typeTag(t types.Type) *Term {
	d := c.u.eng.d
	name := typeTagName(t)
	if _, ok := d.funs[name]; !ok {
		d.Const(name, SInt)
		// distinctness: give each tag a concrete number
		d.AddAxiom("tagval_"+name, Eq(Sym(name, SInt), IntLit(int64(1000+len(d.funs)))))
	}
	return Sym(name, SInt)
}

func (c *ExecCtx) box(v Val) *Term {
	d := c.u.eng.d
	tn := shortTypeName(v.Ty)
	bf, uf := "box_"+tn, "unbox_"+tn
	if _, ok := d.funs[bf]; !ok {
		d.Fun(bf, []string{v.T.Sort}, SInt)
		d.Fun(uf, []string{SInt}, v.T.Sort)
		d.Fun("dyntype", []string{SInt}, SInt)
		x := Sym("x!b", v.T.Sort)
		bx := App(bf, SInt, x)
		d.AddAxiom("box_"+tn, Forall([]*Term{x}, And(Eq(App(uf, v.T.Sort, bx), x), Ne(bx, IntLit(0)), Eq(App("dyntype", SInt, bx), c.typeTag(v.Ty))), []*Term{bx}))
	}
	return App(bf, SInt, v.T)
}

func (c *ExecCtx) unbox(x *Term, t types.Type) *Term {
	d := c.u.eng.d
	tn := shortTypeName(t)
	srt := c.sortOfType(t)
	// make sure declared
	c.box(Val{c.u.eng.tm.Zero(t), t})
	_ = d
	return App("unbox_"+tn, srt, x)
}

func (c *ExecCtx) constVal(cv constant.Value, t types.Type) (Val, bool) {
	tm := c.u.eng.tm
	switch cv.Kind() {
	case constant.Bool:
		return Val{BoolLit(constant.BoolVal(cv)), t}, true
	case constant.String:
		return Val{tm.StrLit(constant.StringVal(cv)), t}, true
	case constant.Int:
		if b, ok := unalias(t).Underlying().(*types.Basic); ok && b.Info()&types.IsFloat != 0 {
			return Val{c.f64Lit(cv.ExactString()), t}, true
		}
		return Val{BigLit(cv.ExactString()), t}, true
	case constant.Float:
		if b, ok := unalias(t).Underlying().(*types.Basic); ok && b.Info()&types.IsInteger != 0 {
			if i, ok := constant.Int64Val(constant.ToInt(cv)); ok {
				return Val{IntLit(i), t}, true
			}
		}
		return Val{c.f64Lit(cv.ExactString()), t}, true
	}
	return Val{}, false
}

func (c *ExecCtx) f64Lit(s string) *Term {
	return c.u.eng.d.Const("f64lit_"+sanitize(s), SF64)
}

// eval evaluates e in st; st may be modified (calls, allocations, assumptions).
func (c *ExecCtx) eval(st *State, e ast.Expr) Val {
	if st.dead {
		return Val{c.u.fresh("dead", c.sortOfType(c.typeOf(e))), c.typeOf(e)}
	}
	if tv, ok := c.info.Types[e]; ok && tv.Value != nil {
		if v, ok := c.constVal(tv.Value, tv.Type); ok {
			return v
		}
	}
	u := c.u
	tm := u.eng.tm
	switch x := e.(type) {
	case *ast.ParenExpr:
		return c.eval(st, x.X)
	case *ast.BasicLit:
		switch x.Kind {
		case token.INT:
			return Val{BigLit(x.Value), c.typeOf(e)}
		case token.STRING:
			s, _ := strconv.Unquote(x.Value)
			return Val{tm.StrLit(s), c.typeOf(e)}
		case token.CHAR:
			r, _, _, _ := strconv.UnquoteChar(x.Value[1:len(x.Value)-1], '\'')
			return Val{IntLit(int64(r)), c.typeOf(e)}
		default:
			return Val{c.f64Lit(x.Value), c.typeOf(e)}
		}
	case *ast.Ident:
		return c.evalIdent(st, x)
	case *ast.SelectorExpr:
		return c.evalSelector(st, x)
	case *ast.IndexExpr:
		return c.evalIndex(st, x)
	case *ast.IndexListExpr:
		return Val{u.fresh("fninst", SInt), c.typeOf(e)}
	case *ast.SliceExpr:
		return c.evalSlice(st, x)
	case *ast.StarExpr:
		p := c.eval(st, x.X)
		return c.deref(st, p, x.Pos())
	case *ast.UnaryExpr:
		return c.evalUnary(st, x)
	case *ast.BinaryExpr:
		return c.evalBinary(st, x)
	case *ast.CallExpr:
		vs := c.evalCall(st, x)
		if len(vs) == 0 {
			return Val{IntLit(0), types.Typ[types.Invalid]}
		}
		return vs[0]
	case *ast.CompositeLit:
		return c.evalCompositeLit(st, x, false)
	case *ast.FuncLit:
		return c.evalFuncLit(st, x)
	case *ast.TypeAssertExpr:
		vs := c.evalTypeAssert(st, x, false)
		return vs[0]
	case *ast.KeyValueExpr:
		return c.eval(st, x.Value)
	}
	u.unsupportedf(e.Pos(), "expression %T", e)
	t := c.typeOf(e)
	return Val{u.fresh("unsup", c.sortOfType(t)), t}
}

func (c *ExecCtx) evalIdent(st *State, id *ast.Ident) Val {
	u := c.u
	if id.Name == "_" {
		return Val{IntLit(0), types.Typ[types.Invalid]}
	}
	obj := c.info.ObjectOf(id)
	switch o := obj.(type) {
	case *types.Nil:
		return Val{NilTerm, types.Typ[types.UntypedNil]}
	case *types.Const:
		if v, ok := c.constVal(o.Val(), o.Type()); ok {
			return v
		}
	case *types.Var:
		return c.readVar(st, o)
	case *types.Func:
		return Val{c.funcRef(o), o.Type()}
	case *types.Builtin, *types.TypeName, *types.PkgName:
		return Val{IntLit(0), types.Typ[types.Invalid]}
	}
	t := c.typeOf(id)
	return Val{u.fresh(id.Name, c.sortOfType(t)), t}
}

func (c *ExecCtx) funcRef(f *types.Func) *Term {
	d := c.u.eng.d
	name := "fnref_" + sanitize(f.FullName())
	if _, ok := d.funs[name]; !ok {
		d.Const(name, SInt)
		d.AddAxiom("nn_"+name, Ne(Sym(name, SInt), IntLit(0)))
	}
	return Sym(name, SInt)
}

func isPkgLevel(v *types.Var) bool {
	return v.Parent() != nil && v.Pkg() != nil && v.Parent() == v.Pkg().Scope()
}

func (c *ExecCtx) readVar(st *State, v *types.Var) Val {
	u := c.u
	srt := c.sortOfType(v.Type())
	if isPkgLevel(v) {
		if u.eng.specs.Immutable[v.Pkg().Path()+"."+v.Name()] {
			t := u.eng.d.Const("const_"+sanitize(v.Pkg().Path()+"."+v.Name()), srt)
			if srt == SInt && isPointerLike(v.Type()) {
				u.eng.d.AddAxiom("nn_"+t.Name, Ne(t, IntLit(0)))
			}
			return Val{t, v.Type()}
		}
		name := "G." + sanitize(v.Pkg().Path()) + "." + v.Name()
		return Val{u.heapGet(st, name, srt), v.Type()}
	}
	if st.volatile[v] {
		t := u.fresh("vol_"+v.Name(), srt)
		c.typeFacts(st, t, v.Type())
		return Val{t, v.Type()}
	}
	if t, ok := st.vars[v]; ok {
		if t.Sort == "BOX" {
			return c.readBox(st, t.Args[0], v.Type())
		}
		return Val{t, v.Type()}
	}
	// unknown (captured or not yet seen): arbitrary but fixed for the whole unit
	if u.capturedInit == nil {
		u.capturedInit = map[*types.Var]*Term{}
		u.captured = map[string]bool{}
	}
	t, seen := u.capturedInit[v]
	if !seen {
		t = u.fresh(v.Name(), srt)
		u.capturedInit[v] = t
		u.captured[t.Name] = true
	}
	st.vars[v] = t
	c.typeFacts(st, t, v.Type())
	return Val{t, v.Type()}
}

// typeFacts assumes the machine-level range facts of a fresh value of type t.
func (c *ExecCtx) typeFacts(st *State, t *Term, ty types.Type) {
	if t.Sort == SInt {
		if isUnsigned(ty) {
			st.assumeT(Ge(t, IntLit(0)))
		}
		if lo, hi, ok := intRange(ty); ok {
			if b := unalias(ty).Underlying().(*types.Basic); b.Kind() != types.Int && b.Kind() != types.Int64 && b.Kind() != types.Uint64 && b.Kind() != types.Uint && b.Kind() != types.Uintptr {
				st.assumeT(And(Ge(t, BigLit(lo)), Le(t, BigLit(hi))))
			}
		}
		return
	}
	if _, ok := unalias(ty).Underlying().(*types.Slice); ok {
		st.assumeT(And(Ge(slLen(t), IntLit(0)), Le(slLen(t), slCap(t)), Imp(slNil(t), Eq(slLen(t), IntLit(0)))))
	}
	if t.Sort == SStr {
		st.assumeT(Ge(c.strLen(t), IntLit(0)))
	}
	// struct values: facts of their slice / string / unsigned fields
	if _, stt := structOf(ty); stt != nil && c.u.eng.tm.isTransparentStruct(ty) {
		for i := 0; i < stt.NumFields(); i++ {
			ft := stt.Field(i).Type()
			switch unalias(ft).Underlying().(type) {
			case *types.Struct:
				if c.u.eng.tm.isTransparentStruct(ft) && c.factDepth < 3 {
					c.factDepth++
					c.typeFacts(st, c.u.eng.tm.FieldGet(t, ty, i), ft)
					c.factDepth--
				}
			case *types.Slice:
				f := c.u.eng.tm.FieldGet(t, ty, i)
				st.assumeT(And(Ge(slLen(f), IntLit(0)), Le(slLen(f), slCap(f)), Imp(slNil(f), Eq(slLen(f), IntLit(0)))))
			case *types.Basic:
				if isUnsigned(ft) {
					st.assumeT(Ge(c.u.eng.tm.FieldGet(t, ty, i), IntLit(0)))
				}
			}
		}
	}
}

func (c *ExecCtx) strLen(s *Term) *Term {
	d := c.u.eng.d
	d.Fun("slen", []string{SStr}, SInt)
	x := Sym("x!l", SStr)
	d.AddAxiom("slen_nonneg", Forall([]*Term{x}, Ge(App("slen", SInt, x), IntLit(0)), []*Term{App("slen", SInt, x)}))
	return App("slen", SInt, s)
}

// box cells for address-taken locals: vars[obj] = BOX(ref)
func boxTerm(ref *Term) *Term { return &Term{Op: "app", Name: "BOX", Sort: "BOX", Args: []*Term{ref}} }

func (c *ExecCtx) cellHeap(ty types.Type) (string, string) {
	srt := c.sortOfType(ty)
	return "P." + sanitize(srt), ArraySort(SInt, srt)
}

func (c *ExecCtx) readBox(st *State, ref *Term, ty types.Type) Val {
	if c.u.eng.tm.isTransparentStruct(ty) {
		return c.deref(st, Val{ref, types.NewPointer(ty)}, token.NoPos)
	}
	hn, hs := c.cellHeap(ty)
	return Val{Select(c.u.heapGet(st, hn, hs), ref), ty}
}

// deref reads *p.
func (c *ExecCtx) deref(st *State, p Val, pos token.Pos) Val {
	u := c.u
	pt, ok := unalias(p.Ty).Underlying().(*types.Pointer)
	if !ok {
		u.unsupportedf(pos, "deref of non-pointer %s", p.Ty)
		return Val{u.fresh("deref", SInt), types.Typ[types.Invalid]}
	}
	elem := pt.Elem()
	if pos != token.NoPos {
		c.nilCheck(st, p.T, pos, "dereference")
	}
	if _, stt := structOf(elem); stt != nil && u.eng.tm.isTransparentStruct(elem) {
		args := make([]*Term, stt.NumFields())
		for i := 0; i < stt.NumFields(); i++ {
			args[i] = c.heapFieldRead(st, p.T, elem, i)
		}
		srt := c.sortOfType(elem)
		if len(args) == 0 {
			args = []*Term{True}
		}
		return Val{App("mk_"+srt, srt, args...), elem}
	}
	hn, hs := c.cellHeap(elem)
	return Val{Select(u.heapGet(st, hn, hs), p.T), elem}
}

func (c *ExecCtx) heapFieldRead(st *State, ref *Term, structT types.Type, i int) *Term {
	_, stt := structOf(structT)
	f := stt.Field(i)
	hn := c.u.eng.tm.HeapName(structT, f.Name())
	fs := c.sortOfType(f.Type())
	c.guardCheck(st, structT, f, ref, false)
	return Select(c.u.heapGet(st, hn, ArraySort(SInt, fs)), ref)
}

func (c *ExecCtx) heapFieldWrite(st *State, ref *Term, structT types.Type, i int, v *Term) {
	_, stt := structOf(structT)
	f := stt.Field(i)
	hn := c.u.eng.tm.HeapName(structT, f.Name())
	fs := c.sortOfType(f.Type())
	c.guardCheck(st, structT, f, ref, true)
	h := c.u.heapGet(st, hn, ArraySort(SInt, fs))
	c.u.heapSet(st, hn, Store(h, ref, v))
}

// nilCheck emits a #nil obligation when sweeping.
func (c *ExecCtx) nilCheck(st *State, ref *Term, pos token.Pos, what string) {
	if !c.sweepOn() || ref.Sort != SInt {
		return
	}
	if ref.Op == "sym" && len(ref.Name) > 6 && ref.Name[:6] == "fnref_" {
		return
	}
	if ref.Op == "sym" && c.u.captured[ref.Name] {
		return // captured variable of an enclosing function: provenance is checked there
	}
	c.u.oblige(st, "nil", Ne(ref, IntLit(0)), pos, "nil "+what)
}

func (c *ExecCtx) evalSelector(st *State, x *ast.SelectorExpr) Val {
	u := c.u
	if sel, ok := c.info.Selections[x]; ok {
		switch sel.Kind() {
		case types.FieldVal:
			base := c.eval(st, x.X)
			return c.walkFieldPath(st, base, sel.Index(), x.Pos())
		case types.MethodVal, types.MethodExpr:
			// bound method value: opaque non-nil func
			c.eval(st, x.X)
			t := u.fresh("methval", SInt)
			st.assumeT(Ne(t, IntLit(0)))
			return Val{t, c.typeOf(x)}
		}
	}
	// qualified identifier
	obj := c.info.Uses[x.Sel]
	switch o := obj.(type) {
	case *types.Const:
		if v, ok := c.constVal(o.Val(), o.Type()); ok {
			return v
		}
	case *types.Var:
		return c.readVar(st, o)
	case *types.Func:
		return Val{c.funcRef(o), o.Type()}
	}
	t := c.typeOf(x)
	return Val{u.fresh("sel", c.sortOfType(t)), t}
}

// walkFieldPath follows a field selection path (with implicit dereferences).
func (c *ExecCtx) walkFieldPath(st *State, base Val, path []int, pos token.Pos) Val {
	cur := base
	for _, idx := range path {
		t := unalias(cur.Ty)
		if pt, ok := t.Underlying().(*types.Pointer); ok {
			elem := pt.Elem()
			_, stt := structOf(elem)
			if stt == nil {
				c.u.unsupportedf(pos, "field of pointer to non-struct %s", elem)
				return Val{c.u.fresh("fld", SInt), types.Typ[types.Invalid]}
			}
			c.nilCheck(st, cur.T, pos, "field access ."+stt.Field(idx).Name())
			f := stt.Field(idx)
			v := c.heapFieldRead(st, cur.T, elem, idx)
			c.fieldReadFacts(st, v, f)
			cur = Val{v, f.Type()}
			continue
		}
		_, stt := structOf(t)
		if stt == nil {
			c.u.unsupportedf(pos, "field of non-struct %s", t)
			return Val{c.u.fresh("fld", SInt), types.Typ[types.Invalid]}
		}
		f := stt.Field(idx)
		cur = Val{c.u.eng.tm.FieldGet(cur.T, t, idx), f.Type()}
	}
	return cur
}

// fieldReadFacts: range facts and non-nil assumptions for heap field reads.
func (c *ExecCtx) fieldReadFacts(st *State, v *Term, f *types.Var) {
	ty := f.Type()
	if v.Sort == SInt {
		if isUnsigned(ty) {
			st.assumeT(Ge(v, IntLit(0)))
		}
		switch unalias(ty).Underlying().(type) {
		case *types.Pointer, *types.Map, *types.Chan, *types.Signature:
			if !c.u.eng.nullableFields[f] && !c.u.eng.fieldDeclaredNullable(f) {
				st.assumeT(Ne(v, IntLit(0)))
			}
		}
		return
	}
	if _, ok := unalias(ty).Underlying().(*types.Slice); ok {
		st.assumeT(And(Ge(slLen(v), IntLit(0)), Le(slLen(v), slCap(v)), Imp(slNil(v), Eq(slLen(v), IntLit(0)))))
	}
}

func (e *Engine) fieldDeclaredNullable(f *types.Var) bool {
	if f.Pkg() == nil {
		return false
	}
	// every pointer field of generated protobuf messages may be nil
	return f.Pkg().Path() == modulePath+"/pb" || f.Pkg().Path() == "github.com/libp2p/go-libp2p-record/pb"
}

func (c *ExecCtx) evalIndex(st *State, x *ast.IndexExpr) Val {
	u := c.u
	if tv, ok := c.info.Types[x.X]; ok && !tv.IsValue() && !tv.IsType() {
		// generic function instantiation
		return Val{u.fresh("fninst", SInt), c.typeOf(x)}
	}
	if _, ok := unalias(c.typeOf(x.X)).Underlying().(*types.Signature); ok {
		return Val{u.fresh("fninst", SInt), c.typeOf(x)}
	}
	base := c.eval(st, x.X)
	switch bt := unalias(base.Ty).Underlying().(type) {
	case *types.Slice:
		idx := c.eval(st, x.Index)
		c.boundsCheck(st, idx.T, slLen(base.T), x.Pos(), "index")
		v := Select(slArr(base.T), idx.T)
		return c.elemFacts(st, Val{v, bt.Elem()})
	case *types.Array:
		idx := c.eval(st, x.Index)
		c.boundsCheck(st, idx.T, IntLit(bt.Len()), x.Pos(), "array index")
		return c.elemFacts(st, Val{Select(base.T, idx.T), bt.Elem()})
	case *types.Pointer:
		if at, ok := unalias(bt.Elem()).Underlying().(*types.Array); ok {
			arr := c.deref(st, base, x.Pos())
			idx := c.eval(st, x.Index)
			c.boundsCheck(st, idx.T, IntLit(at.Len()), x.Pos(), "array index")
			return c.elemFacts(st, Val{Select(arr.T, idx.T), at.Elem()})
		}
	case *types.Basic:
		if bt.Info()&types.IsString != 0 {
			idx := c.eval(st, x.Index)
			c.boundsCheck(st, idx.T, c.strLen(base.T), x.Pos(), "string index")
			return c.elemFacts(st, Val{c.strAt(base.T, idx.T), types.Typ[types.Uint8]})
		}
	case *types.Map:
		k := c.eval(st, x.Index)
		kt := c.convert(st, k, bt.Key())
		v, _ := c.mapLookup(st, base, kt)
		return v
	}
	u.unsupportedf(x.Pos(), "index of %s", base.Ty)
	t := c.typeOf(x)
	return Val{u.fresh("idx", c.sortOfType(t)), t}
}

func (c *ExecCtx) elemFacts(st *State, v Val) Val {
	if v.T.Sort == SInt {
		if lo, hi, ok := intRange(v.Ty); ok {
			b := unalias(v.Ty).Underlying().(*types.Basic)
			switch b.Kind() {
			case types.Uint8, types.Uint16, types.Uint32, types.Int8, types.Int16, types.Int32:
				st.assumeT(And(Ge(v.T, BigLit(lo)), Le(v.T, BigLit(hi))))
			case types.Uint, types.Uint64, types.Uintptr:
				st.assumeT(Ge(v.T, IntLit(0)))
			}
		}
	}
	if _, ok := unalias(v.Ty).Underlying().(*types.Slice); ok {
		st.assumeT(And(Ge(slLen(v.T), IntLit(0)), Le(slLen(v.T), slCap(v.T)), Imp(slNil(v.T), Eq(slLen(v.T), IntLit(0)))))
	}
	return v
}

func (c *ExecCtx) strAt(s, i *Term) *Term {
	c.u.eng.d.Fun("sat", []string{SStr, SInt}, SInt)
	return App("sat", SInt, s, i)
}

// sweepOn: zero-annotation safety obligations belong to the unit that owns
// the code; bodies inlined from other functions are checked in their own unit.
func (c *ExecCtx) sweepOn() bool {
	if !c.u.sweep {
		return false
	}
	for x := c; x != nil; x = x.parent {
		if x.inlinedFunc {
			return false
		}
	}
	return true
}

func (c *ExecCtx) boundsCheck(st *State, idx, n *Term, pos token.Pos, what string) {
	if !c.sweepOn() {
		return
	}
	c.u.oblige(st, "idx", And(Ge(idx, IntLit(0)), Lt(idx, n)), pos, what+" in range")
}

// map model: per map type three heaps indexed by the map reference.
func (c *ExecCtx) mapHeaps(mt *types.Map) (has, val, ln string, ks, vs string) {
	tm := c.u.eng.tm
	ks, vs = tm.SortOf(mt.Key()), tm.SortOf(mt.Elem())
	base := tm.mapHeapBase(mt)
	return base + ".has", base + ".val", base + ".len", ks, vs
}

func (c *ExecCtx) mapLookup(st *State, m Val, k *Term) (Val, *Term) {
	u := c.u
	mt := unalias(m.Ty).Underlying().(*types.Map)
	hn, vn, _, ks, vs := c.mapHeaps(mt)
	has := Select(Select(u.heapGet(st, hn, ArraySort(SInt, ArraySort(ks, SBool))), m.T), k)
	val := Select(Select(u.heapGet(st, vn, ArraySort(SInt, ArraySort(ks, vs))), m.T), k)
	// nil map: lookups yield zero
	ok := And(Ne(m.T, IntLit(0)), has)
	return c.elemFacts(st, Val{Ite(ok, val, u.eng.tm.Zero(mt.Elem())), mt.Elem()}), ok
}

func (c *ExecCtx) mapLen(st *State, m Val) *Term {
	mt := unalias(m.Ty).Underlying().(*types.Map)
	_, _, ln, _, _ := c.mapHeaps(mt)
	l := Select(c.u.heapGet(st, ln, ArraySort(SInt, SInt)), m.T)
	st.assumeT(Ge(l, IntLit(0)))
	return Ite(Eq(m.T, IntLit(0)), IntLit(0), l)
}

func (c *ExecCtx) mapStore(st *State, m Val, k, v *Term, pos token.Pos) {
	u := c.u
	mt := unalias(m.Ty).Underlying().(*types.Map)
	hn, vn, ln, ks, vs := c.mapHeaps(mt)
	if c.sweepOn() {
		u.oblige(st, "mapw", Ne(m.T, IntLit(0)), pos, "write to nil map")
	}
	hs := ArraySort(SInt, ArraySort(ks, SBool))
	H := u.heapGet(st, hn, hs)
	V := u.heapGet(st, vn, ArraySort(SInt, ArraySort(ks, vs)))
	L := u.heapGet(st, ln, ArraySort(SInt, SInt))
	had := Select(Select(H, m.T), k)
	u.heapSet(st, ln, Store(L, m.T, Ite(had, Select(L, m.T), Add(Select(L, m.T), IntLit(1)))))
	u.heapSet(st, hn, Store(H, m.T, Store(Select(H, m.T), k, True)))
	u.heapSet(st, vn, Store(V, m.T, Store(Select(V, m.T), k, v)))
}

func (c *ExecCtx) mapDelete(st *State, m Val, k *Term) {
	u := c.u
	mt := unalias(m.Ty).Underlying().(*types.Map)
	hn, _, ln, ks, _ := c.mapHeaps(mt)
	hs := ArraySort(SInt, ArraySort(ks, SBool))
	H := u.heapGet(st, hn, hs)
	L := u.heapGet(st, ln, ArraySort(SInt, SInt))
	had := And(Ne(m.T, IntLit(0)), Select(Select(H, m.T), k))
	u.heapSet(st, ln, Store(L, m.T, Ite(had, Sub(Select(L, m.T), IntLit(1)), Select(L, m.T))))
	u.heapSet(st, hn, Store(H, m.T, Store(Select(H, m.T), k, False)))
}

func (c *ExecCtx) evalSlice(st *State, x *ast.SliceExpr) Val {
	u := c.u
	base := c.eval(st, x.X)
	var lo, hi, mx *Term
	if x.Low != nil {
		lo = c.eval(st, x.Low).T
	}
	if x.High != nil {
		hi = c.eval(st, x.High).T
	}
	if x.Max != nil {
		mx = c.eval(st, x.Max).T
	}
	bt := unalias(base.Ty).Underlying()
	if pt, ok := bt.(*types.Pointer); ok {
		if _, ok := unalias(pt.Elem()).Underlying().(*types.Array); ok {
			base = c.deref(st, base, x.Pos())
			bt = unalias(base.Ty).Underlying()
		}
	}
	switch t := bt.(type) {
	case *types.Slice:
		if lo == nil {
			lo = IntLit(0)
		}
		if hi == nil {
			hi = slLen(base.T)
		}
		capT := slCap(base.T)
		if mx != nil {
			if c.sweepOn() {
				u.oblige(st, "slice", And(Le(hi, mx), Le(mx, capT)), x.Pos(), "slice max in range")
			}
			capT = mx
		}
		if c.sweepOn() {
			u.oblige(st, "slice", And(Ge(lo, IntLit(0)), Le(lo, hi), Le(hi, capT)), x.Pos(), "slice bounds in range")
		}
		arr := c.shiftArr(st, slArr(base.T), lo)
		res := mkSlice(base.T.Sort, arr, Sub(hi, lo), Sub(capT, lo), False)
		if isLitZero(lo) {
			res = mkSlice(base.T.Sort, arr, hi, capT, And(slNil(base.T), Eq(hi, IntLit(0))))
		}
		return Val{u.define(st, "sl", res), base.Ty}
	case *types.Array:
		if lo == nil {
			lo = IntLit(0)
		}
		n := IntLit(t.Len())
		if hi == nil {
			hi = n
		}
		if c.sweepOn() {
			u.oblige(st, "slice", And(Ge(lo, IntLit(0)), Le(lo, hi), Le(hi, n)), x.Pos(), "slice bounds in range")
		}
		st2 := types.NewSlice(t.Elem())
		srt := c.sortOfType(st2)
		arr := c.shiftArr(st, base.T, lo)
		return Val{u.define(st, "sl", mkSlice(srt, arr, Sub(hi, lo), Sub(n, lo), False)), st2}
	case *types.Basic:
		if t.Info()&types.IsString != 0 {
			if lo == nil {
				lo = IntLit(0)
			}
			n := c.strLen(base.T)
			if hi == nil {
				hi = n
			}
			if c.sweepOn() {
				u.oblige(st, "slice", And(Ge(lo, IntLit(0)), Le(lo, hi), Le(hi, n)), x.Pos(), "string slice bounds in range")
			}
			r := c.strSub(base.T, lo, hi)
			st.assumeT(Imp(And(Ge(lo, IntLit(0)), Le(lo, hi), Le(hi, n)), Eq(c.strLen(r), Sub(hi, lo))))
			return Val{r, base.Ty}
		}
	}
	u.unsupportedf(x.Pos(), "slice of %s", base.Ty)
	return Val{u.fresh("slice", c.sortOfType(c.typeOf(x))), c.typeOf(x)}
}

// overflowCheck: in units whose contract says `overflow_checked`, every
// + - * on signed 64-bit integers must stay inside the int64 range (integers
// are mathematical in the encoding; this makes the machine range an
// obligation instead of an assumption). Operands are machine values, hence
// inside the range themselves.
func (c *ExecCtx) overflowCheck(st *State, res *Term, l, r Val, rt types.Type, pos token.Pos, what string) {
	root := c
	for root.parent != nil {
		root = root.parent
	}
	if root.spec == nil || c.u.quiet > 0 {
		return
	}
	if _, ok := root.spec.Extra["overflow_checked"]; !ok {
		return
	}
	b, ok := unalias(rt).Underlying().(*types.Basic)
	if !ok || b.Info()&types.IsInteger == 0 || b.Info()&types.IsUnsigned != 0 {
		return
	}
	switch b.Kind() {
	case types.Int, types.Int64, types.UntypedInt:
	default:
		return
	}
	lo, hi := BigLit("-9223372036854775808"), BigLit("9223372036854775807")
	for _, o := range []Val{l, r} {
		st.assumeT(And(Ge(o.T, lo), Le(o.T, hi)))
	}
	c.u.oblige(st, "ovf", And(Ge(res, lo), Le(res, hi)), pos, "signed 64-bit "+what+" does not overflow")
}

func isLitZero(t *Term) bool { return t.Op == "lit" && t.Name == "0" }

func (c *ExecCtx) strSub(s, lo, hi *Term) *Term {
	c.u.eng.d.Fun("ssub", []string{SStr, SInt, SInt}, SStr)
	return App("ssub", SStr, s, lo, hi)
}

func (c *ExecCtx) shiftArr(st *State, arr, lo *Term) *Term {
	if isLitZero(lo) {
		return arr
	}
	a2 := c.u.fresh("shifted", arr.Sort)
	i := Sym("i!s", SInt)
	st.assumeT(Forall([]*Term{i}, Eq(Select(a2, i), Select(arr, Add(i, lo))), []*Term{Select(a2, i)}))
	return a2
}

func (c *ExecCtx) evalUnary(st *State, x *ast.UnaryExpr) Val {
	u := c.u
	switch x.Op {
	case token.NOT:
		v := c.eval(st, x.X)
		return Val{Not(v.T), v.Ty}
	case token.SUB:
		v := c.eval(st, x.X)
		if v.T.Sort == SF64 {
			u.eng.d.Fun("f64_neg", []string{SF64}, SF64)
			return Val{App("f64_neg", SF64, v.T), v.Ty}
		}
		return Val{Neg(v.T), v.Ty}
	case token.ADD:
		return c.eval(st, x.X)
	case token.XOR:
		v := c.eval(st, x.X)
		u.eng.d.Fun("bitnot", []string{SInt}, SInt)
		return Val{App("bitnot", SInt, v.T), v.Ty}
	case token.ARROW:
		vs := c.evalRecv(st, x, false)
		return vs[0]
	case token.AND:
		return c.evalAddrOf(st, x)
	}
	u.unsupportedf(x.Pos(), "unary %s", x.Op)
	return Val{u.fresh("un", c.sortOfType(c.typeOf(x))), c.typeOf(x)}
}

func (c *ExecCtx) alloc(st *State, what string) *Term {
	u := c.u
	r := u.fresh("new_"+what, SInt)
	al := u.heapGet(st, "$alloc", ArraySort(SInt, SBool))
	st.assumeT(And(Gt(r, IntLit(0)), Not(Select(al, r))))
	u.heapSet(st, "$alloc", Store(al, r, True))
	return r
}

func (c *ExecCtx) assumeAllocated(st *State, t *Term) {
	al := c.u.heapGet(st, "$alloc", ArraySort(SInt, SBool))
	st.assumeT(Or(Eq(t, IntLit(0)), Select(al, t)))
}

func (c *ExecCtx) evalAddrOf(st *State, x *ast.UnaryExpr) Val {
	u := c.u
	t := c.typeOf(x)
	switch in := ast.Unparen(x.X).(type) {
	case *ast.CompositeLit:
		return c.evalCompositeLit(st, in, true)
	case *ast.Ident:
		if v, ok := c.info.ObjectOf(in).(*types.Var); ok && !isPkgLevel(v) {
			if cur, ok := st.vars[v]; ok && cur.Sort == "BOX" {
				return Val{cur.Args[0], t}
			}
			// box the variable now
			curV := c.readVar(st, v)
			ref := c.alloc(st, v.Name())
			c.storeThrough(st, ref, v.Type(), curV.T)
			u.varSet(st, v, boxTerm(ref))
			return Val{ref, t}
		}
	}
	// &x.f, &a[i], &global: opaque non-nil pointer (identity by syntax is used
	// for locks; contents are not tracked through it)
	r := u.fresh("addr", SInt)
	st.assumeT(Ne(r, IntLit(0)))
	return Val{r, t}
}

// storeThrough writes a value of type ty at pointer ref.
func (c *ExecCtx) storeThrough(st *State, ref *Term, ty types.Type, v *Term) {
	u := c.u
	if _, stt := structOf(ty); stt != nil && u.eng.tm.isTransparentStruct(ty) {
		for i := 0; i < stt.NumFields(); i++ {
			c.heapFieldWrite(st, ref, ty, i, u.eng.tm.FieldGet(v, ty, i))
		}
		return
	}
	hn, hs := c.cellHeap(ty)
	u.heapSet(st, hn, Store(u.heapGet(st, hn, hs), ref, v))
}

func (c *ExecCtx) evalCompositeLit(st *State, x *ast.CompositeLit, addr bool) Val {
	u := c.u
	tm := u.eng.tm
	t := c.typeOf(x)
	if pt, ok := unalias(t).Underlying().(*types.Pointer); ok && x.Type == nil {
		// elided &T in composite literal elements
		t = pt.Elem()
		addr = true
	}
	ut := unalias(t).Underlying()
	srt := c.sortOfType(t)
	var res *Term
	switch tt := ut.(type) {
	case *types.Struct:
		vals := make([]*Term, tt.NumFields())
		for i := range vals {
			vals[i] = tm.Zero(tt.Field(i).Type())
		}
		for i, el := range x.Elts {
			if kv, ok := el.(*ast.KeyValueExpr); ok {
				name := kv.Key.(*ast.Ident).Name
				for j := 0; j < tt.NumFields(); j++ {
					if tt.Field(j).Name() == name {
						vals[j] = c.convert(st, c.evalElt(st, kv.Value, tt.Field(j).Type()), tt.Field(j).Type())
					}
				}
			} else if i < len(vals) {
				vals[i] = c.convert(st, c.evalElt(st, el, tt.Field(i).Type()), tt.Field(i).Type())
			}
		}
		if addr {
			ref := c.alloc(st, shortTypeName(t))
			if tm.isTransparentStruct(t) {
				for i := range vals {
					hn := tm.HeapName(t, tt.Field(i).Name())
					fs := tm.SortOf(tt.Field(i).Type())
					h := u.heapGet(st, hn, ArraySort(SInt, fs))
					u.heapSet(st, hn, Store(h, ref, vals[i]))
				}
			}
			return Val{ref, types.NewPointer(t)}
		}
		if tm.isTransparentStruct(t) {
			if len(vals) == 0 {
				vals = []*Term{True}
			}
			res = App("mk_"+srt, srt, vals...)
		} else {
			res = u.fresh("opq", srt)
		}
	case *types.Slice, *types.Array:
		var elemT types.Type
		if s, ok := tt.(*types.Slice); ok {
			elemT = s.Elem()
		} else {
			elemT = tt.(*types.Array).Elem()
		}
		es := tm.SortOf(elemT)
		var arr *Term
		if _, ok := tt.(*types.Array); ok {
			arr = tm.constArray(es, tm.Zero(elemT))
		} else {
			arr = u.fresh("litarr", ArraySort(SInt, es))
		}
		n := int64(0)
		idx := int64(0)
		for _, el := range x.Elts {
			var ve ast.Expr = el
			if kv, ok := el.(*ast.KeyValueExpr); ok {
				if tv, ok := c.info.Types[kv.Key]; ok && tv.Value != nil {
					if i, ok := constant.Int64Val(tv.Value); ok {
						idx = i
					}
				}
				ve = kv.Value
			}
			v := c.convert(st, c.evalElt(st, ve, elemT), elemT)
			arr = Store(arr, IntLit(idx), v)
			idx++
			if idx > n {
				n = idx
			}
		}
		if _, ok := tt.(*types.Array); ok {
			res = arr
		} else {
			res = mkSlice(srt, arr, IntLit(n), IntLit(n), False)
		}
	case *types.Map:
		ref := c.alloc(st, "map")
		hn, vn, ln, ks, vs := c.mapHeaps(tt)
		H := u.heapGet(st, hn, ArraySort(SInt, ArraySort(ks, SBool)))
		u.heapSet(st, hn, Store(H, ref, App("(as const "+ArraySort(ks, SBool)+")", ArraySort(ks, SBool), False)))
		L := u.heapGet(st, ln, ArraySort(SInt, SInt))
		u.heapSet(st, ln, Store(L, ref, IntLit(0)))
		_ = vn
		_ = vs
		m := Val{ref, t}
		for _, el := range x.Elts {
			kv := el.(*ast.KeyValueExpr)
			k := c.convert(st, c.evalElt(st, kv.Key, tt.Key()), tt.Key())
			v := c.convert(st, c.evalElt(st, kv.Value, tt.Elem()), tt.Elem())
			c.mapStore(st, m, k, v, x.Pos())
		}
		return m
	default:
		u.unsupportedf(x.Pos(), "composite literal of %s", t)
		res = u.fresh("lit", srt)
	}
	if addr {
		ref := c.alloc(st, "lit")
		c.storeThrough(st, ref, t, res)
		return Val{ref, types.NewPointer(t)}
	}
	return Val{u.define(st, "lit", res), t}
}

// evalElt evaluates a composite literal element, handling elided types.
func (c *ExecCtx) evalElt(st *State, e ast.Expr, want types.Type) Val {
	if cl, ok := e.(*ast.CompositeLit); ok && cl.Type == nil {
		if _, isPtr := unalias(want).Underlying().(*types.Pointer); isPtr {
			return c.evalCompositeLit(st, cl, true)
		}
	}
	return c.eval(st, e)
}

func (c *ExecCtx) evalTypeAssert(st *State, x *ast.TypeAssertExpr, commaOk bool) []Val {
	u := c.u
	v := c.eval(st, x.X)
	if x.Type == nil {
		return []Val{v}
	}
	t := c.typeOf(x.Type)
	u.eng.d.Fun("dyntype", []string{SInt}, SInt)
	if isInterface(t) {
		// interface-to-interface: success is not decidable here
		ok := u.fresh("ifaceok", SBool)
		st.assumeT(Imp(ok, Ne(v.T, IntLit(0))))
		if !commaOk {
			st.assumeT(ok)
			return []Val{{v.T, t}}
		}
		return []Val{{Ite(ok, v.T, IntLit(0)), t}, {ok, types.Typ[types.Bool]}}
	}
	ok := And(Ne(v.T, IntLit(0)), Eq(App("dyntype", SInt, v.T), c.typeTag(t)))
	ub := c.unbox(v.T, t)
	if !commaOk {
		if c.sweepOn() {
			u.oblige(st, "assert", ok, x.Pos(), "type assertion to "+t.String())
		}
		st.assumeT(ok)
		return []Val{{ub, t}}
	}
	okS := u.define(st, "taok", ok)
	// listed assumption: interfaces do not hold typed-nil pointers
	if _, isPtr := unalias(t).Underlying().(*types.Pointer); isPtr {
		st.assumeT(Imp(okS, Ne(ub, IntLit(0))))
	}
	return []Val{{Ite(okS, ub, u.eng.tm.Zero(t)), t}, {okS, types.Typ[types.Bool]}}
}

func (c *ExecCtx) evalFuncLit(st *State, x *ast.FuncLit) Val {
	u := c.u
	t := u.fresh("fnlit", SInt)
	st.assumeT(Ne(t, IntLit(0)))
	st.funcLits[t.Name] = &closure{lit: x, info: c.info, pkg: c.pkg}
	// escaping literal: variables it assigns become volatile
	c.markCaptured(st, x)
	return Val{t, c.typeOf(x)}
}

// markCaptured marks as volatile the enclosing-function variables that the
// literal assigns (it may run at any later time).
func (c *ExecCtx) markCaptured(st *State, lit *ast.FuncLit) {
	declared := map[types.Object]bool{}
	ast.Inspect(lit, func(n ast.Node) bool {
		if id, ok := n.(*ast.Ident); ok {
			if o := c.info.Defs[id]; o != nil {
				declared[o] = true
			}
		}
		return true
	})
	mark := func(e ast.Expr) {
		if id, ok := ast.Unparen(e).(*ast.Ident); ok {
			if v, ok := c.info.ObjectOf(id).(*types.Var); ok && !declared[v] && !isPkgLevel(v) {
				st.volatile[v] = true
			}
		}
	}
	ast.Inspect(lit.Body, func(n ast.Node) bool {
		switch s := n.(type) {
		case *ast.AssignStmt:
			for _, l := range s.Lhs {
				mark(l)
			}
		case *ast.IncDecStmt:
			mark(s.X)
		case *ast.UnaryExpr:
			if s.Op == token.AND {
				mark(s.X)
			}
		case *ast.RangeStmt:
			if s.Tok == token.ASSIGN {
				if s.Key != nil {
					mark(s.Key)
				}
				if s.Value != nil {
					mark(s.Value)
				}
			}
		}
		return true
	})
}

func (c *ExecCtx) evalBinary(st *State, x *ast.BinaryExpr) Val {
	u := c.u
	rt := c.typeOf(x)
	switch x.Op {
	case token.LAND, token.LOR:
		l := c.eval(st, x.X)
		base := len(st.assume)
		s2 := st.fork()
		if x.Op == token.LAND {
			s2.assumeT(l.T)
		} else {
			s2.assumeT(Not(l.T))
		}
		r := c.eval(s2, x.Y)
		rS := u.fresh("sc", SBool)
		if s2.dead {
			// RHS unreachable
			return Val{l.T, rt}
		}
		s2.assume = append(s2.assume, Eq(rS, r.T))
		s1 := st.fork()
		if x.Op == token.LAND {
			s1.assumeT(Not(l.T))
			s1.assume = append(s1.assume, Eq(rS, False))
		} else {
			s1.assumeT(l.T)
			s1.assume = append(s1.assume, Eq(rS, True))
		}
		m := u.mergeStates(base, []*State{s1, s2})
		if m == nil {
			u.unsupportedf(x.Pos(), "cannot merge short-circuit states")
			return Val{rS, rt}
		}
		st.become(m)
		return Val{rS, rt}
	}
	l := c.eval(st, x.X)
	r := c.eval(st, x.Y)
	return c.binop(st, x.Op, l, r, rt, x.Pos())
}

func (c *ExecCtx) binop(st *State, op token.Token, l, r Val, rt types.Type, pos token.Pos) Val {
	u := c.u
	d := u.eng.d
	// nil comparisons and interface boxing
	if op == token.EQL || op == token.NEQ {
		var t *Term
		switch {
		case isNilVal(l) && isNilVal(r):
			t = True
		case isNilVal(r):
			t = c.isNil(l)
		case isNilVal(l):
			t = c.isNil(r)
		default:
			lt, rtt := l.T, r.T
			if isInterface(l.Ty) && !isInterface(r.Ty) {
				rtt = c.box(r)
			} else if isInterface(r.Ty) && !isInterface(l.Ty) {
				lt = c.box(l)
			}
			if lt.Sort != rtt.Sort {
				if lt.Sort == SF64 && rtt.Sort == SInt {
					rtt = c.f64OfInt(rtt)
				} else if rtt.Sort == SF64 && lt.Sort == SInt {
					lt = c.f64OfInt(lt)
				} else {
					u.unsupportedf(pos, "comparison of %s and %s", lt.Sort, rtt.Sort)
					return Val{u.fresh("cmp", SBool), rt}
				}
			}
			t = Eq(lt, rtt)
		}
		if op == token.NEQ {
			t = Not(t)
		}
		return Val{t, rt}
	}
	ls, rs := l.T.Sort, r.T.Sort
	if ls == SF64 || rs == SF64 {
		lt, rtt := l.T, r.T
		if ls == SInt {
			lt = c.f64OfInt(lt)
		}
		if rs == SInt {
			rtt = c.f64OfInt(rtt)
		}
		switch op {
		case token.LSS, token.LEQ, token.GTR, token.GEQ:
			fn := "f64_" + map[token.Token]string{token.LSS: "lt", token.LEQ: "le", token.GTR: "gt", token.GEQ: "ge"}[op]
			d.Fun(fn, []string{SF64, SF64}, SBool)
			return Val{App(fn, SBool, lt, rtt), rt}
		default:
			fn := "f64_" + map[token.Token]string{token.ADD: "add", token.SUB: "sub", token.MUL: "mul", token.QUO: "div"}[op]
			d.Fun(fn, []string{SF64, SF64}, SF64)
			return Val{App(fn, SF64, lt, rtt), rt}
		}
	}
	if ls == SStr && rs == SStr {
		switch op {
		case token.ADD:
			d.Fun("sconcat", []string{SStr, SStr}, SStr)
			t := App("sconcat", SStr, l.T, r.T)
			st.assumeT(Eq(c.strLen(t), Add(c.strLen(l.T), c.strLen(r.T))))
			return Val{t, rt}
		case token.LSS, token.LEQ, token.GTR, token.GEQ:
			d.Fun("scmp", []string{SStr, SStr}, SInt)
			cmp := App("scmp", SInt, l.T, r.T)
			z := IntLit(0)
			switch op {
			case token.LSS:
				return Val{Lt(cmp, z), rt}
			case token.LEQ:
				return Val{Le(cmp, z), rt}
			case token.GTR:
				return Val{Gt(cmp, z), rt}
			default:
				return Val{Ge(cmp, z), rt}
			}
		}
	}
	if ls == SInt && rs == SInt {
		switch op {
		case token.ADD:
			c.overflowCheck(st, Add(l.T, r.T), l, r, rt, pos, "+")
			return Val{Add(l.T, r.T), rt}
		case token.SUB:
			c.overflowCheck(st, Sub(l.T, r.T), l, r, rt, pos, "-")
			return c.wrapUnsigned(st, Sub(l.T, r.T), rt)
		case token.MUL:
			c.overflowCheck(st, Mul(l.T, r.T), l, r, rt, pos, "*")
			return Val{Mul(l.T, r.T), rt}
		case token.QUO:
			if c.sweepOn() {
				u.oblige(st, "div", Ne(r.T, IntLit(0)), pos, "division by zero")
			}
			return Val{c.truncDiv(st, l.T, r.T), rt}
		case token.REM:
			if c.sweepOn() {
				u.oblige(st, "div", Ne(r.T, IntLit(0)), pos, "modulo by zero")
			}
			return Val{c.truncMod(st, l.T, r.T), rt}
		case token.LSS:
			return Val{Lt(l.T, r.T), rt}
		case token.LEQ:
			return Val{Le(l.T, r.T), rt}
		case token.GTR:
			return Val{Gt(l.T, r.T), rt}
		case token.GEQ:
			return Val{Ge(l.T, r.T), rt}
		case token.SHL:
			if r.T.Op == "lit" {
				if n, err := strconv.Atoi(r.T.Name); err == nil && n >= 0 && n < 63 {
					return Val{Mul(l.T, IntLit(1<<uint(n))), rt}
				}
			}
			if l.T.Op == "lit" && l.T.Name == "1" {
				// 1 << n is the spec function pow2(n), pinned by a table for 0..62
				d.Fun("sf_pow2", []string{SInt}, SInt)
				t := App("sf_pow2", SInt, r.T)
				var facts []*Term
				for k := 0; k <= 62; k++ {
					facts = append(facts, Imp(Eq(r.T, IntLit(int64(k))), Eq(t, IntLit(int64(1)<<uint(k)))))
				}
				st.assumeT(And(facts...))
				st.assumeT(Imp(And(Ge(r.T, IntLit(0)), Le(r.T, IntLit(62))), Ge(t, IntLit(1))))
				return Val{t, rt}
			}
			d.Fun("shl", []string{SInt, SInt}, SInt)
			t := App("shl", SInt, l.T, r.T)
			st.assumeT(Imp(Ge(l.T, IntLit(0)), Ge(t, IntLit(0))))
			return Val{t, rt}
		case token.SHR:
			if r.T.Op == "lit" {
				if n, err := strconv.Atoi(r.T.Name); err == nil && n >= 0 && n < 63 {
					return Val{App("div", SInt, l.T, IntLit(1<<uint(n))), rt}
				}
			}
			d.Fun("shr", []string{SInt, SInt}, SInt)
			t := App("shr", SInt, l.T, r.T)
			st.assumeT(Imp(Ge(l.T, IntLit(0)), And(Ge(t, IntLit(0)), Le(t, l.T))))
			return Val{t, rt}
		case token.AND:
			d.Fun("bitand", []string{SInt, SInt}, SInt)
			t := App("bitand", SInt, l.T, r.T)
			st.assumeT(Imp(Ge(r.T, IntLit(0)), And(Ge(t, IntLit(0)), Le(t, r.T))))
			st.assumeT(Imp(Ge(l.T, IntLit(0)), And(Ge(t, IntLit(0)), Le(t, l.T))))
			return Val{t, rt}
		case token.OR:
			d.Fun("bitor", []string{SInt, SInt}, SInt)
			t := App("bitor", SInt, l.T, r.T)
			st.assumeT(Imp(And(Ge(l.T, IntLit(0)), Ge(r.T, IntLit(0))), And(Ge(t, l.T), Ge(t, r.T), Le(t, Add(l.T, r.T)))))
			return Val{t, rt}
		case token.XOR:
			d.Fun("bitxor", []string{SInt, SInt}, SInt)
			t := App("bitxor", SInt, l.T, r.T)
			st.assumeT(Imp(And(Ge(l.T, IntLit(0)), Ge(r.T, IntLit(0))), And(Ge(t, IntLit(0)), Le(t, Add(l.T, r.T)))))
			return Val{t, rt}
		case token.AND_NOT:
			d.Fun("bitandnot", []string{SInt, SInt}, SInt)
			t := App("bitandnot", SInt, l.T, r.T)
			st.assumeT(Imp(Ge(l.T, IntLit(0)), And(Ge(t, IntLit(0)), Le(t, l.T))))
			return Val{t, rt}
		}
	}
	if ls == SBool && rs == SBool {
		// should not happen (LAND/LOR handled above)
	}
	u.unsupportedf(pos, "binary %s on %s,%s", op, ls, rs)
	return Val{u.fresh("bin", c.sortOfType(rt)), rt}
}

// wrapUnsigned models unsigned subtraction wrap-around for small widths; for
// 64-bit it is left mathematical (listed assumption) but never negative facts
// are assumed.
func (c *ExecCtx) wrapUnsigned(st *State, t *Term, ty types.Type) Val {
	return Val{t, ty}
}

func (c *ExecCtx) truncDiv(st *State, a, b *Term) *Term {
	z := IntLit(0)
	if b.Op == "lit" && b.Name != "0" && b.Name[0] != '(' {
		// positive literal divisor
		return Ite(Ge(a, z), App("div", SInt, a, b), Neg(App("div", SInt, Neg(a), b)))
	}
	return Ite(Gt(b, z),
		Ite(Ge(a, z), App("div", SInt, a, b), Neg(App("div", SInt, Neg(a), b))),
		Ite(Ge(a, z), Neg(App("div", SInt, a, Neg(b))), App("div", SInt, Neg(a), Neg(b))))
}

func (c *ExecCtx) truncMod(st *State, a, b *Term) *Term {
	z := IntLit(0)
	ab := App("abs", SInt, b)
	return Ite(Ge(a, z), App("mod", SInt, a, ab), Neg(App("mod", SInt, Neg(a), ab)))
}

func (c *ExecCtx) isNil(v Val) *Term {
	if v.T.Sort == SInt {
		return Eq(v.T, IntLit(0))
	}
	if _, ok := unalias(v.Ty).Underlying().(*types.Slice); ok {
		return slNil(v.T)
	}
	c.u.unsupportedf(token.NoPos, "nil comparison on sort %s", v.T.Sort)
	return c.u.fresh("isnil", SBool)
}

func (c *ExecCtx) String() string { return fmt.Sprintf("ctx(%s)", c.u.name) }
