package main

// Structural (engine-decided) checks: goroutine ledger etc. Filled in later.

func (e *Engine) RunStructural(names []string) *Unit {
	if len(names) == 0 {
		return nil
	}
	u := e.newUnit("structural")
	for _, n := range names {
		switch n {
		default:
			u.unsupported = append(u.unsupported, "unknown structural check "+n)
		}
	}
	return u
}

// TryReplay turns a failed obligation into a runnable replay when a driver
// exists; returns the replay path or "".
func (e *Engine) TryReplay(id string, ob *Obligation, dir string) string { return "" }
