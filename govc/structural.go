package main

import (
	"fmt"
	"go/ast"
	"go/token"
	"go/types"
	"strings"

	"golang.org/x/tools/go/packages"
)

// Structural (engine-decided) checks: goroutine ledger etc. Filled in later.

func (e *Engine) RunStructural(names []string) *Unit {
	if len(names) == 0 {
		return nil
	}
	u := e.newUnit("structural")
	for _, n := range names {
		switch n {
		case "immutable-fields":
			e.checkImmutableFields(u)
		case "callers":
			e.checkCallers(u)
		default:
			u.unsupported = append(u.unsupported, "unknown structural check "+n)
		}
	}
	return u
}

// TryReplay turns a failed obligation into a runnable replay when a driver
// exists; returns the replay path or "".
func (e *Engine) TryReplay(id string, ob *Obligation, dir string) string { return "" }


// checkImmutableFields: a field declared `immutable field T.f` may only be
// assigned in functions whose contract says `constructor`, or in composite
// literals. One static obligation per assignment found.
func (e *Engine) checkImmutableFields(u *Unit) {
	if len(e.specs.ImmutableFields) == 0 {
		return
	}
	for _, p := range e.pkgs {
		for _, f := range p.Syntax {
			for _, decl := range f.Decls {
				fd, ok := decl.(*ast.FuncDecl)
				if !ok || fd.Body == nil {
					continue
				}
				obj, _ := p.TypesInfo.Defs[fd.Name].(*types.Func)
				isCtor := false
				if obj != nil {
					if fs := e.specs.Funcs[obj.FullName()]; fs != nil {
						_, isCtor = fs.Extra["constructor"]
					}
				}
				check := func(lhs ast.Expr) {
					se, ok := ast.Unparen(lhs).(*ast.SelectorExpr)
					if !ok {
						return
					}
					sel := p.TypesInfo.Selections[se]
					if sel == nil {
						return
					}
					fv, ok := sel.Obj().(*types.Var)
					if !ok || !fv.IsField() {
						return
					}
					recv := derefType(sel.Recv())
					n, ok := unalias(recv).(*types.Named)
					if !ok || n.Obj().Pkg() == nil {
						return
					}
					key := n.Obj().Pkg().Path() + "." + n.Obj().Name() + "." + fv.Name()
					if !e.specs.ImmutableFields[key] {
						return
					}
					u.kindN["immutable"]++
					ob := &Obligation{Name: fmt.Sprintf("structural#immutable.%s.%d", n.Obj().Name()+"."+fv.Name(), u.kindN["immutable"]), Unit: u.name, Kind: "immutable", Pos: u.pos(lhs.Pos()),
						Desc: "immutable field " + key + " assigned only in constructors (" + fd.Name.Name + ")", Static: true, StaticOK: isCtor}
					if isCtor {
						ob.Status = "static"
					} else {
						ob.Status = "failed-static"
					}
					u.obls = append(u.obls, ob)
				}
				ast.Inspect(fd.Body, func(x ast.Node) bool {
					switch s := x.(type) {
					case *ast.AssignStmt:
						for _, l := range s.Lhs {
							check(l)
						}
					case *ast.IncDecStmt:
						check(s.X)
					case *ast.UnaryExpr:
						if s.Op == token.AND {
							check(s.X)
						}
					}
					return true
				})
			}
		}
	}
	// at least one obligation so that the check is never empty
	u.kindN["immutable"]++
	u.obls = append(u.obls, &Obligation{Name: fmt.Sprintf("structural#immutable.scan.%d", u.kindN["immutable"]), Unit: u.name, Kind: "immutable", Desc: fmt.Sprintf("scanned %d packages for writes to %d immutable fields", len(e.pkgs), len(e.specs.ImmutableFields)), Static: true, StaticOK: true, Status: "static"})
}


// checkCallers: `directive callers <Func> : A, B` in a package's contract file
// states that the function/method named Func of that package is called only
// from the functions A, B (by name, same package). One obligation per call site.
func (e *Engine) checkCallers(u *Unit) {
	for pkgPath, dirs := range e.specs.Directives {
		p := e.pkgs[pkgPath]
		if p == nil {
			continue
		}
		for _, d := range dirs {
			external := false
			rest, ok := strings.CutPrefix(d, "callers ")
			if !ok {
				// extcallers: the callee is a method of a dependency, matched by name
				rest, ok = strings.CutPrefix(d, "extcallers ")
				external = ok
			}
			if !ok {
				if r2, ok2 := strings.CutPrefix(d, "senders "); ok2 {
					e.checkSenders(u, p, pkgPath, r2)
				}
				continue
			}
			target, list, ok := strings.Cut(rest, ":")
			if !ok {
				continue
			}
			target = strings.TrimSpace(target)
			allowed := map[string]bool{}
			for _, a := range strings.Split(list, ",") {
				allowed[strings.TrimSpace(a)] = true
			}
			found := 0
			for _, f := range p.Syntax {
				for _, decl := range f.Decls {
					fd, ok := decl.(*ast.FuncDecl)
					if !ok || fd.Body == nil {
						continue
					}
					ast.Inspect(fd.Body, func(x ast.Node) bool {
						ce, ok := x.(*ast.CallExpr)
						if !ok || calleeName(ce) != target {
							return true
						}
						// must resolve to a function of this package
						var obj types.Object
						switch fx := ast.Unparen(ce.Fun).(type) {
						case *ast.Ident:
							obj = p.TypesInfo.Uses[fx]
						case *ast.SelectorExpr:
							if s := p.TypesInfo.Selections[fx]; s != nil {
								obj = s.Obj()
							} else {
								obj = p.TypesInfo.Uses[fx.Sel]
							}
						}
						if fn, ok := obj.(*types.Func); !ok || fn.Pkg() == nil || (fn.Pkg().Path() != pkgPath && !external) {
							return true
						}
						found++
						u.kindN["callers"]++
						okc := allowed[fd.Name.Name]
						ob := &Obligation{Name: fmt.Sprintf("structural#callers.%s.%d", target, u.kindN["callers"]), Unit: u.name, Kind: "callers", Pos: u.pos(ce.Pos()),
							Desc: fmt.Sprintf("%s is called only from {%s} (here: %s)", target, strings.TrimSpace(list), fd.Name.Name), Static: true, StaticOK: okc}
						if okc {
							ob.Status = "static"
						} else {
							ob.Status = "failed-static"
						}
						u.obls = append(u.obls, ob)
						return true
					})
				}
			}
			if found == 0 {
				u.stale = append(u.stale, "callers directive: no call of "+target+" found in "+pkgPath)
			}
		}
	}
}


// checkSenders: `directive senders <field> : A, B`: sends on a channel held in
// a struct field named <field> occur only in the functions A, B.
func (e *Engine) checkSenders(u *Unit, p *packages.Package, pkgPath, rest string) {
	field, list, ok := strings.Cut(rest, ":")
	if !ok {
		return
	}
	field = strings.TrimSpace(field)
	allowed := map[string]bool{}
	for _, a := range strings.Split(list, ",") {
		allowed[strings.TrimSpace(a)] = true
	}
	found := 0
	for _, f := range p.Syntax {
		for _, decl := range f.Decls {
			fd, ok := decl.(*ast.FuncDecl)
			if !ok || fd.Body == nil {
				continue
			}
			ast.Inspect(fd.Body, func(x ast.Node) bool {
				ss, ok := x.(*ast.SendStmt)
				if !ok {
					return true
				}
				se, ok := ast.Unparen(ss.Chan).(*ast.SelectorExpr)
				if !ok || se.Sel.Name != field {
					return true
				}
				found++
				u.kindN["senders"]++
				okc := allowed[fd.Name.Name]
				ob := &Obligation{Name: fmt.Sprintf("structural#senders.%s.%d", field, u.kindN["senders"]), Unit: u.name, Kind: "senders", Pos: u.pos(ss.Pos()),
					Desc: fmt.Sprintf("sends on %s only in {%s} (here: %s)", field, strings.TrimSpace(list), fd.Name.Name), Static: true, StaticOK: okc}
				if okc {
					ob.Status = "static"
				} else {
					ob.Status = "failed-static"
				}
				u.obls = append(u.obls, ob)
				return true
			})
		}
	}
	if found == 0 {
		u.stale = append(u.stale, "senders directive: no send on "+field+" found in "+pkgPath)
	}
}
