package main

import (
	"fmt"
	"go/ast"
	"go/token"
	"go/types"
)

// Structural (engine-decided) checks: goroutine ledger etc. Filled in later.

func (e *Engine) RunStructural(names []string) *Unit {
	if len(names) == 0 {
		return nil
	}
	u := e.newUnit("structural")
	for _, n := range names {
		switch n {
		case "immutable-fields":
			e.checkImmutableFields(u)
		default:
			u.unsupported = append(u.unsupported, "unknown structural check "+n)
		}
	}
	return u
}

// TryReplay turns a failed obligation into a runnable replay when a driver
// exists; returns the replay path or "".
func (e *Engine) TryReplay(id string, ob *Obligation, dir string) string { return "" }


// checkImmutableFields: a field declared `immutable field T.f` may only be
// assigned in functions whose contract says `constructor`, or in composite
// literals. One static obligation per assignment found.
func (e *Engine) checkImmutableFields(u *Unit) {
	if len(e.specs.ImmutableFields) == 0 {
		return
	}
	for _, p := range e.pkgs {
		for _, f := range p.Syntax {
			for _, decl := range f.Decls {
				fd, ok := decl.(*ast.FuncDecl)
				if !ok || fd.Body == nil {
					continue
				}
				obj, _ := p.TypesInfo.Defs[fd.Name].(*types.Func)
				isCtor := false
				if obj != nil {
					if fs := e.specs.Funcs[obj.FullName()]; fs != nil {
						_, isCtor = fs.Extra["constructor"]
					}
				}
				check := func(lhs ast.Expr) {
					se, ok := ast.Unparen(lhs).(*ast.SelectorExpr)
					if !ok {
						return
					}
					sel := p.TypesInfo.Selections[se]
					if sel == nil {
						return
					}
					fv, ok := sel.Obj().(*types.Var)
					if !ok || !fv.IsField() {
						return
					}
					recv := derefType(sel.Recv())
					n, ok := unalias(recv).(*types.Named)
					if !ok || n.Obj().Pkg() == nil {
						return
					}
					key := n.Obj().Pkg().Path() + "." + n.Obj().Name() + "." + fv.Name()
					if !e.specs.ImmutableFields[key] {
						return
					}
					u.kindN["immutable"]++
					ob := &Obligation{Name: fmt.Sprintf("structural#immutable.%s.%d", n.Obj().Name()+"."+fv.Name(), u.kindN["immutable"]), Unit: u.name, Kind: "immutable", Pos: u.pos(lhs.Pos()),
						Desc: "immutable field " + key + " assigned only in constructors (" + fd.Name.Name + ")", Static: true, StaticOK: isCtor}
					if isCtor {
						ob.Status = "static"
					} else {
						ob.Status = "failed-static"
					}
					u.obls = append(u.obls, ob)
				}
				ast.Inspect(fd.Body, func(x ast.Node) bool {
					switch s := x.(type) {
					case *ast.AssignStmt:
						for _, l := range s.Lhs {
							check(l)
						}
					case *ast.IncDecStmt:
						check(s.X)
					case *ast.UnaryExpr:
						if s.Op == token.AND {
							check(s.X)
						}
					}
					return true
				})
			}
		}
	}
	// at least one obligation so that the check is never empty
	u.kindN["immutable"]++
	u.obls = append(u.obls, &Obligation{Name: fmt.Sprintf("structural#immutable.scan.%d", u.kindN["immutable"]), Unit: u.name, Kind: "immutable", Desc: fmt.Sprintf("scanned %d packages for writes to %d immutable fields", len(e.pkgs), len(e.specs.ImmutableFields)), Static: true, StaticOK: true, Status: "static"})
}
