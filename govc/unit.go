package main

// Verification units: a function (or func literal) against its contract,
// lemmas, and axioms.

import (
	"fmt"
	"go/ast"
	"go/token"
	"go/types"
	"sort"
	"strings"

	"golang.org/x/tools/go/packages"
)

type ghostDecl struct {
	init *Term
	ty   types.Type
}

func (e *Engine) newUnit(name string) *Unit {
	return &Unit{fieldWrite: -1, eng: e, name: name, initHeap: map[string]*Term{}, kindN: map[string]int{}, ghostTypes: map[string]types.Type{}, ghostDecl: map[string]ghostDecl{}}
}

// nthFuncLit finds the n-th func literal (source order) in a declaration.
func nthFuncLit(fd *ast.FuncDecl, n int) *ast.FuncLit {
	var found *ast.FuncLit
	i := 0
	ast.Inspect(fd.Body, func(x ast.Node) bool {
		if found != nil {
			return false
		}
		if l, ok := x.(*ast.FuncLit); ok {
			if i == n {
				found = l
				return false
			}
			i++
		}
		return true
	})
	return found
}

func countFuncLits(fd *ast.FuncDecl) int {
	i := 0
	if fd.Body == nil {
		return 0
	}
	ast.Inspect(fd.Body, func(x ast.Node) bool {
		if _, ok := x.(*ast.FuncLit); ok {
			i++
		}
		return true
	})
	return i
}

// paramComparedToNil reports the parameters that the body compares with nil.
func paramsComparedToNil(info *types.Info, body ast.Node) map[types.Object]bool {
	out := map[types.Object]bool{}
	if body == nil {
		return out
	}
	ast.Inspect(body, func(n ast.Node) bool {
		if b, ok := n.(*ast.BinaryExpr); ok && (b.Op == token.EQL || b.Op == token.NEQ) {
			for _, pair := range [][2]ast.Expr{{b.X, b.Y}, {b.Y, b.X}} {
				if id, ok := pair[1].(*ast.Ident); ok && id.Name == "nil" {
					if v, ok := ast.Unparen(pair[0]).(*ast.Ident); ok {
						if o := info.ObjectOf(v); o != nil {
							out[o] = true
						}
					}
				}
			}
		}
		return true
	})
	return out
}

type unitTarget struct {
	fi    *FuncInfo
	lit   *ast.FuncLit
	litN  int
	spec  *FuncSpec
	sweep bool
	name  string
}

// VerifyFunc runs one function (or literal) against its contract.
func (e *Engine) VerifyFunc(t unitTarget) *Unit {
	fi := t.fi
	u := e.newUnit(t.name)
	u.sweep = t.sweep
	u.spec = t.spec
	u.fnObj = fi.Obj
	defer func() {
		if r := recover(); r != nil {
			u.unsupported = append(u.unsupported, fmt.Sprintf("engine panic: %v", r))
			if e.debug {
				panic(r)
			}
		}
	}()
	info := fi.Pkg.TypesInfo
	c := &ExecCtx{u: u, info: info, pkg: fi.Pkg, fn: fi, spec: t.spec, lit: t.lit, binds: map[string]Val{}}
	u.boxVar = func(bst *State, v *types.Var) {
		u.quiet++
		curV := c.readVar(bst, v)
		u.quiet--
		ref := c.alloc(bst, v.Name())
		c.storeThrough(bst, ref, v.Type(), curV.T)
		u.varSet(bst, v, boxTerm(ref))
	}
	st := newState()
	var ftype *ast.FuncType
	var body *ast.BlockStmt
	var sig *types.Signature
	if t.lit != nil {
		ftype, body = t.lit.Type, t.lit.Body
		sig = info.TypeOf(t.lit).(*types.Signature)
	} else {
		ftype, body = fi.Decl.Type, fi.Decl.Body
		sig = fi.Obj.Type().(*types.Signature)
	}
	if body == nil {
		u.unsupported = append(u.unsupported, "no body")
		return u
	}
	nilCmp := paramsComparedToNil(info, body)
	var paramVals []Val
	var recvVal *Val
	// receiver
	if t.lit == nil && fi.Decl.Recv != nil && len(fi.Decl.Recv.List) > 0 {
		rf := fi.Decl.Recv.List[0]
		rt := sig.Recv().Type()
		sym := u.fresh("recv", c.sortOfType(rt))
		c.typeFacts(st, sym, rt)
		if _, ok := unalias(rt).Underlying().(*types.Pointer); ok {
			st.assumeT(Ne(sym, IntLit(0)))
			c.assumeAllocated(st, sym)
		}
		if len(rf.Names) > 0 {
			if obj := info.Defs[rf.Names[0]]; obj != nil {
				st.vars[obj] = sym
			}
		}
		v := Val{sym, rt}
		recvVal = &v
	}
	// the enclosing function's receiver/params for a literal are captured
	// variables: arbitrary, but a pointer receiver is non-nil
	if t.lit != nil && fi.Decl.Recv != nil && len(fi.Decl.Recv.List) > 0 && len(fi.Decl.Recv.List[0].Names) > 0 {
		if obj, ok := info.Defs[fi.Decl.Recv.List[0].Names[0]].(*types.Var); ok {
			v := c.readVar(st, obj)
			if _, isPtr := unalias(obj.Type()).Underlying().(*types.Pointer); isPtr {
				st.assumeT(Ne(v.T, IntLit(0)))
			}
		}
	}
	i := 0
	var paramObjList []*types.Var
	for _, f := range ftype.Params.List {
		names := f.Names
		if len(names) == 0 {
			names = []*ast.Ident{nil}
		}
		for _, n := range names {
			var pobj *types.Var
			if n != nil && n.Name != "_" {
				pobj, _ = info.Defs[n].(*types.Var)
			}
			paramObjList = append(paramObjList, pobj)
			pt := sig.Params().At(i).Type()
			nm := fmt.Sprintf("p%d", i)
			if n != nil {
				nm = n.Name
			}
			sym := u.fresh(nm, c.sortOfType(pt))
			c.typeFacts(st, sym, pt)
			switch unalias(pt).Underlying().(type) {
			case *types.Signature, *types.Chan:
				var obj types.Object
				if n != nil {
					obj = info.Defs[n]
				}
				if n != nil && !(obj != nil && nilCmp[obj]) && !(t.spec != nil && t.spec.Nullable[n.Name]) {
					st.assumeT(Ne(sym, IntLit(0)))
					u.implicitNonNil = append(u.implicitNonNil, n.Name)
				}
			case *types.Pointer, *types.Map:
				c.assumeAllocated(st, sym)
				var obj types.Object
				if n != nil {
					obj = info.Defs[n]
				}
				nullable := obj != nil && nilCmp[obj]
				if t.spec != nil && n != nil && t.spec.Nullable[n.Name] {
					nullable = true
				}
				if _, isPtr := unalias(pt).Underlying().(*types.Pointer); isPtr && !nullable && n != nil {
					st.assumeT(Ne(sym, IntLit(0)))
					u.implicitNonNil = append(u.implicitNonNil, n.Name)
				}
			}
			// elements of []*T parameters are allocated (or nil) in the pre-state
			if sl, ok := unalias(pt).Underlying().(*types.Slice); ok {
				if _, isPtr := unalias(sl.Elem()).Underlying().(*types.Pointer); isPtr {
					al := u.heapGet(st, "$alloc", ArraySort(SInt, SBool))
					j := Sym("j!al", SInt)
					el := Select(slArr(sym), j)
					st.assumeT(Forall([]*Term{j}, Imp(And(Ge(j, IntLit(0)), Lt(j, slLen(sym))), Or(Eq(el, IntLit(0)), Select(al, el))), []*Term{el}))
				}
			}
			if n != nil && n.Name != "_" {
				if obj := info.Defs[n]; obj != nil {
					st.vars[obj] = sym
				}
			}
			paramVals = append(paramVals, Val{sym, pt})
			i++
		}
	}
	c.setupResults(st, ftype, sig)
	c.paramObjs = map[*types.Var]bool{}
	c.headerNames = map[string]bool{}
	for obj := range st.vars {
		if v, ok := obj.(*types.Var); ok {
			c.paramObjs[v] = true
		}
	}
	// header bindings
	if t.spec != nil {
		if t.lit == nil {
			for k, v := range c.bindHeader(t.spec, recvVal, paramVals) {
				c.binds[k] = v
				c.headerNames[k] = true
			}
			// header name -> the real parameter variable (same position): inside
			// the body (loop invariants, ghost statements) a parameter name means
			// the variable's CURRENT value; in requires/ensures its entry value
			c.headerObj = map[string]*types.Var{}
			if h := t.spec.Header; h != nil && h.Type.Params != nil {
				j := 0
				for _, f := range h.Type.Params.List {
					if len(f.Names) == 0 {
						j++
						continue
					}
					for _, n := range f.Names {
						if j < len(paramObjList) && paramObjList[j] != nil {
							c.headerObj[n.Name] = paramObjList[j]
						}
						j++
					}
				}
			}
		} else {
			// for literals the header names the enclosing function; the
			// literal's own parameters are visible by their real names
		}
	}
	// ghost variable declarations: `ghostvar $name type = init`
	if t.spec != nil {
		c.ghostPos = body.Pos()
		for _, raw := range t.spec.Extra["ghostvar"] {
			c.declareGhostVar(st, raw, t.spec.Where)
		}
	}
	env := c.newEnv(nil, body.Pos())
	if t.spec != nil {
		env.assuming = true
		for _, cl := range t.spec.Requires {
			st.assumeT(env.evalBool(st, st, cl.Expr, cl.Where))
		}
		env.assuming = false
		for _, cl := range t.spec.Lets {
			env.where = cl.Where
			c.binds[cl.Label] = env.eval(st, st, cl.Expr)
		}
	}
	// locks the caller holds on entry (`holds x.mu`)
	if t.spec != nil {
		for _, raw := range t.spec.Extra["holds"] {
			ex, err := parseSpecExpr(raw)
			if err != nil {
				u.specErrors = append(u.specErrors, t.spec.Where+": holds: "+err.Error())
				continue
			}
			k, idx := env.specLockKey(st, st, ex)
			st.locks[k] = 1
			if idx != nil {
				st.lockIdx[k] = idx
			}
			u.heldAtEntry = append(u.heldAtEntry, k)
		}
	}
	// entry snapshot
	c.oldState = st.fork()
	u.entry = c.oldState
	if t.spec != nil && len(t.spec.Requires) > 0 {
		u.vacuity(st, body.Pos())
	}
	c.runNamedAnchor(st, "entry", body.Pos())
	outs := c.execBlock([]*State{st}, body.List)
	for _, o := range outs {
		if !o.dead {
			o.results = nil
			if c.hasNamedResults() {
				for _, r := range c.results {
					o.results = append(o.results, c.readVar(o, r))
				}
			}
			c.returns = append(c.returns, o)
		}
	}
	nret := 0
	var exits []*State
	for _, r := range c.returns {
		for _, f := range c.runDefers(r) {
			if f.dead {
				continue
			}
			nret++
			exits = append(exits, f)
			c.checkExit(f, sig, body.Rbrace)
		}
	}
	u.nreturns = nret
	u.exitReach(exits, body.Rbrace)
	// stale contract pieces
	if t.spec != nil {
		for k, ls := range t.spec.Loops {
			if !ls.used {
				u.stale = append(u.stale, fmt.Sprintf("loop %q of %s not found", k, t.spec.Key))
			}
		}
		for _, g := range t.spec.Ghosts {
			if !g.used {
				u.stale = append(u.stale, fmt.Sprintf("ghost anchor %q of %s never matched", g.Anchor, t.spec.Key))
			}
		}
	}
	return u
}

func (c *ExecCtx) declareGhostVar(st *State, raw, where string) {
	// $name type = init
	u := c.u
	lhs, initS, ok := strings.Cut(raw, "=")
	fs := strings.Fields(strings.TrimSpace(lhs))
	if !ok || len(fs) < 2 {
		u.specErrors = append(u.specErrors, where+": ghostvar: expected '$name type = init'")
		return
	}
	name := dollar(fs[0])
	env := c.newEnv(nil, c.ghostPos)
	env.where = where
	te, err := parseTypeExpr(strings.Join(fs[1:], " "))
	if err != nil {
		env.errf("ghostvar type: %v", err)
		return
	}
	ty := env.ghostType(te)
	srt := env.sortOfGhost(ty)
	initS = strings.TrimSpace(initS)
	var init *Term
	switch initS {
	case "empty":
		// constant-false / zero map
		if k, v, ok := arrayParts(srt); ok {
			var zero *Term
			switch v {
			case SBool:
				zero = False
			case SInt:
				zero = IntLit(0)
			default:
				zero = u.eng.d.Const("zero_"+sanitize(v), v)
			}
			init = App("(as const "+ArraySort(k, v)+")", srt, zero)
		}
	case "any":
		init = u.fresh("g"+name, srt)
	default:
		ex, err := parseSpecExpr(initS)
		if err != nil {
			env.errf("ghostvar init: %v", err)
			return
		}
		iv := env.eval(st, st, ex)
		if isNilVal(iv) {
			init = u.eng.tm.Zero(ty)
		} else {
			init = iv.T
		}
	}
	if init == nil || init.Sort != srt {
		env.errf("ghostvar %s: bad initial value", fs[0])
		return
	}
	st.ghost[name] = init
	u.ghostTypes[name] = ty
	u.ghostDecl[name] = ghostDecl{init, ty}
}

// vacuity: the entry assumptions must be satisfiable.
func (u *Unit) vacuity(st *State, pos token.Pos) {
	u.kindN["vacuity"]++
	u.obls = append(u.obls, &Obligation{
		Name: fmt.Sprintf("%s#vacuity.%d", u.name, u.kindN["vacuity"]), Unit: u.name, Kind: "vacuity", Pos: u.pos(pos),
		Desc: "preconditions are satisfiable (reachability)", Assumes: append([]*Term(nil), st.assume...), Goal: False,
	})
}

// checkExit emits postcondition, frame and lock-balance obligations.
func (c *ExecCtx) checkExit(st *State, sig *types.Signature, pos token.Pos) {
	u := c.u
	// results
	var results []Val
	for i := 0; i < sig.Results().Len(); i++ {
		rt := sig.Results().At(i).Type()
		if c.hasNamedResults() {
			results = append(results, c.readVar(st, c.results[i]))
		} else if i < len(st.results) {
			results = append(results, st.results[i])
		} else {
			results = append(results, Val{u.fresh("res", c.sortOfType(rt)), rt})
		}
	}
	{
		rb := map[string]Val{}
		for i, r := range results {
			rb[fmt.Sprintf("result%d", i)] = r
		}
		if len(results) > 0 {
			rb["result"] = results[0]
		}
		for i, r := range c.results {
			if r.Name() != "" && r.Name()[0] != '$' && i < len(results) {
				rb[r.Name()] = results[i]
			}
		}
		c.runNamedAnchorWith(st, "return", pos, rb)
	}
	if c.spec != nil {
		env := c.newEnv(nil, pos)
		env.bindResults(results)
		// real result names of the function, too
		for i, r := range c.results {
			if r.Name() != "" && r.Name()[0] != '$' && i < len(results) {
				if _, ok := env.binds[r.Name()]; !ok {
					env.binds[r.Name()] = results[i]
				}
			}
		}
		for _, cl := range c.spec.Ensures {
			t := env.evalBool(st, c.oldState, cl.Expr, cl.Where)
			lab := cl.Label
			if lab != "" {
				lab = "[" + lab + "] "
			}
			u.oblige(st, "post", t, pos, "postcondition "+lab+cl.Src)
		}
		c.checkFrame(st, env, pos)
	}
	// lock balance (locks held on entry by contract stay held)
	for _, k := range u.heldAtEntry {
		if _, ok := st.locks[k]; !ok {
			u.obligeStatic(st, "lock", false, pos, "lock "+k+" held on entry must still be held at return")
		}
	}
	if c.extraLocks(st) {
		allowed := c.spec != nil && len(c.spec.Extra["acquires"]) > 0
		if !allowed {
			var ks []string
			for k := range st.locks {
				skip := false
				for _, e := range u.heldAtEntry {
					if e == k {
						skip = true
					}
				}
				if !skip {
					ks = append(ks, k)
				}
			}
			for _, cl := range st.condLocks {
				ks = append(ks, cl.key+"(conditional)")
			}
			sort.Strings(ks)
			if len(st.condLocks) > 0 && len(st.locks) == 0 {
				var conds []*Term
				for _, cl := range st.condLocks {
					conds = append(conds, Not(cl.cond))
				}
				u.oblige(st, "lock", And(conds...), pos, "no lock held at return: "+strings.Join(ks, ", "))
			} else {
				u.obligeStatic(st, "lock", false, pos, "no lock held at return: "+strings.Join(ks, ", "))
			}
		}
	}
}

// checkFrame: heaps not named in `modifies` are unchanged.
func (c *ExecCtx) checkFrame(st *State, env *SpecEnv, pos token.Pos) {
	u := c.u
	fs := c.spec
	if !fs.HasModifies && !fs.Pure && !fs.Func {
		return
	}
	if fs.ModifiesAll {
		return
	}
	allowed, allowedAll := c.frameAllowed(env)
	old := c.oldState
	var names []string
	for h := range st.heaps {
		names = append(names, h)
	}
	sort.Strings(names)
	for _, h := range names {
		cur := st.heaps[h]
		init := u.initHeap[h]
		if oh, ok := old.heaps[h]; ok {
			init = oh
		}
		if init == nil || cur == init {
			continue
		}
		if h == "$alloc" || strings.HasPrefix(h, "C.") || allowedAll[h] {
			continue
		}
		if strings.HasPrefix(h, "G.") && !strings.HasPrefix(h, "G."+sanitize(modulePath)) {
			continue // package-level variables of dependencies are not repository state
		}
		// objects allocated during the call may be written freely
		expected := init
		for _, r := range allowed[h] {
			expected = Store(expected, r, Select(cur, r))
		}
		if _, _, ok := arrayParts(cur.Sort); !ok {
			u.oblige(st, "frame", Eq(cur, init), pos, "frame: "+h+" unchanged")
			continue
		}
		x := Sym("x!f", SInt)
		al0 := u.heapGet(old, "$alloc", ArraySort(SInt, SBool))
		goal := Forall([]*Term{x}, Imp(Select(al0, x), Eq(Select(cur, x), Select(expected, x))))
		u.oblige(st, "frame", goal, pos, "frame: "+h+" changed only where `modifies` allows")
	}
}

// ---------------------------------------------------------------------------
// axioms and lemmas

func (e *Engine) scratchCtx(pkgPath string) (*ExecCtx, *State) {
	u := e.newUnit("axioms")
	u.quiet = 1
	var pkg *packages.Package
	if p, ok := e.pkgs[pkgPath]; ok {
		pkg = p
	}
	c := &ExecCtx{u: u, pkg: pkg, binds: map[string]Val{}}
	if pkg != nil {
		c.info = pkg.TypesInfo
	}
	return c, newState()
}

// InstallAxioms evaluates axiom declarations into the global declarations.
func (e *Engine) InstallAxioms() []string {
	var errs []string
	for _, ax := range e.specs.Axioms {
		c, st := e.scratchCtx(ax.PkgPath)
		env := &SpecEnv{c: c, pkgPath: ax.PkgPath, binds: map[string]Val{}, where: ax.Where}
		var qv []*Term
		if ax.Vars != nil {
			for _, f := range ax.Vars.Type.Params.List {
				t := env.ghostType(f.Type)
				if t == nil {
					continue
				}
				for _, n := range f.Names {
					q := env.freshQVar(n.Name, env.sortOfGhost(t))
					qv = append(qv, q)
					env.binds[n.Name] = Val{q, t}
				}
			}
		}
		body := env.evalBool(st, nil, ax.Expr, ax.Where)
		if len(st.assume) > 0 {
			// side assumptions introduced while evaluating (e.g. slen facts)
			body = Imp(And(st.assume...), body)
		}
		errs = append(errs, c.u.specErrors...)
		t := body
		if len(qv) > 0 {
			if p := pickPattern(body, qv); p != nil {
				t = Forall(qv, body, []*Term{p})
			} else {
				t = Forall(qv, body)
			}
		}
		e.d.AddAxiom(ax.Name, t)
		e.axiomNames = append(e.axiomNames, ax.Name+" ("+ax.Where+")")
	}
	return errs
}

// VerifyLemma: parameters are arbitrary constants; requires are assumed,
// ensures are obligations.
func (e *Engine) VerifyLemma(l *LemmaSpec) *Unit {
	u := e.newUnit("lemma." + l.Name)
	var pkg *packages.Package
	if p, ok := e.pkgs[l.PkgPath]; ok {
		pkg = p
	}
	c := &ExecCtx{u: u, pkg: pkg, binds: map[string]Val{}}
	if pkg != nil {
		c.info = pkg.TypesInfo
	}
	st := newState()
	env := &SpecEnv{c: c, pkgPath: l.PkgPath, binds: map[string]Val{}, where: l.Where}
	for _, f := range l.Header.Type.Params.List {
		t := env.ghostType(f.Type)
		if t == nil {
			continue
		}
		for _, n := range f.Names {
			s := u.fresh(n.Name, env.sortOfGhost(t))
			env.binds[n.Name] = Val{s, t}
			if _, ok := t.(*types.Map); !ok {
				c.typeFacts(st, s, t)
			}
		}
	}
	env.assuming = true
	for _, cl := range l.Requires {
		st.assumeT(env.evalBool(st, st, cl.Expr, cl.Where))
	}
	env.assuming = false
	pos := token.NoPos
	for _, cl := range l.Ensures {
		t := env.evalBool(st, st, cl.Expr, cl.Where)
		u.kindN["lemma"]++
		u.obls = append(u.obls, &Obligation{Name: fmt.Sprintf("%s#lemma.%d", u.name, u.kindN["lemma"]), Unit: u.name, Kind: "lemma", Pos: l.Where, Desc: cl.Src, Assumes: append([]*Term(nil), st.assume...), Goal: t})
	}
	_ = pos
	return u
}


// pickPattern chooses an E-matching trigger for an axiom: the smallest
// application of an uninterpreted function that mentions every bound variable
// and contains no arithmetic.
func pickPattern(body *Term, qv []*Term) *Term {
	var best *Term
	bestSize := 1 << 30
	var walk func(t *Term)
	size := func(t *Term) int { return len(t.String()) }
	hasArith := func(t *Term) bool {
		s := map[string]bool{}
		collectSyms(t, s)
		for _, op := range []string{"+", "-", "*", "div", "mod", "<", "<=", ">", ">=", "=", "ite", "and", "or", "not", "=>"} {
			if s[op] {
				return true
			}
		}
		return false
	}
	walk = func(t *Term) {
		if t.Op == "app" && len(t.Args) > 0 && !builtinOps[t.Name] && !strings.HasPrefix(t.Name, "(as const") {
			s := map[string]bool{}
			collectSyms(t, s)
			all := true
			for _, v := range qv {
				if !s[v.Name] {
					all = false
				}
			}
			if all && !hasArith(t) {
				if sz := size(t); sz < bestSize {
					best, bestSize = t, sz
				}
			}
		}
		for _, a := range t.Args {
			walk(a)
		}
	}
	walk(body)
	return best
}


// frameAllowed evaluates the `modifies` clause in the entry state: for each
// heap the object references that may change, and heaps that may change anywhere.
func (c *ExecCtx) frameAllowed(env *SpecEnv) (map[string][]*Term, map[string]bool) {
	u := c.u
	fs := c.spec
	// allowed: heap name -> list of object refs
	allowed := map[string][]*Term{}
	allowedAll := map[string]bool{}
	old := c.oldState
	for _, m := range fs.Modifies {
		env.where = m.Where
		switch x := m.Expr.(type) {
		case *ast.SelectorExpr:
			if hn, _, ok := env.typeFieldHeap(x); ok {
				allowedAll[hn] = true
				continue
			}
			base := env.eval(old, old, x.X)
			name := x.Sel.Name
			if strings.HasPrefix(name, "ʃ") {
				if hn, _, ok := env.ghostHeap(base, name); ok {
					allowed[hn] = append(allowed[hn], base.T)
				}
				continue
			}
			obj, _, _ := types.LookupFieldOrMethod(base.Ty, true, env.anyPkg(base.Ty), name)
			if f, ok := obj.(*types.Var); ok {
				hn := u.eng.tm.HeapName(derefType(base.Ty), f.Name())
				allowed[hn] = append(allowed[hn], base.T)
			}
		case *ast.Ident:
			v := env.eval(old, old, x)
			if v.Ty != nil {
				if mt, ok := unalias(v.Ty).Underlying().(*types.Map); ok {
					hn, vn, ln, _, _ := c.mapHeaps(mt)
					for _, h := range []string{hn, vn, ln} {
						allowed[h] = append(allowed[h], v.T)
					}
				}
			}
		case *ast.MapType:
			// modifies map[K]V : contents of every map of that type
			if t := env.resolveType(x); t != nil {
				if mt, ok := t.(*types.Map); ok {
					hn, vn, ln, _, _ := c.mapHeaps(mt)
					for _, h := range []string{hn, vn, ln} {
						allowedAll[h] = true
					}
				}
			}
		case *ast.StarExpr:
			v := env.eval(old, old, x.X)
			if mt, ok := unalias(v.Ty).Underlying().(*types.Map); ok {
				hn, vn, ln, _, _ := c.mapHeaps(mt)
				for _, h := range []string{hn, vn, ln} {
					allowed[h] = append(allowed[h], v.T)
				}
			}
			if pt, ok := unalias(v.Ty).Underlying().(*types.Pointer); ok {
				if _, stt := structOf(pt.Elem()); stt != nil {
					for i := 0; i < stt.NumFields(); i++ {
						hn := u.eng.tm.HeapName(pt.Elem(), stt.Field(i).Name())
						allowed[hn] = append(allowed[hn], v.T)
					}
				} else {
					hn, _ := c.cellHeap(pt.Elem())
					allowed[hn] = append(allowed[hn], v.T)
				}
			}
		}
	}
	return allowed, allowedAll
}

// frameFormula: every object allocated at function entry, other than those
// `modifies` allows, has the same value in heap cur as at function entry.
func (c *ExecCtx) frameFormula(h string, cur *Term, allowed map[string][]*Term) *Term {
	u := c.u
	old := c.oldState
	init := u.initHeap[h]
	if oh, ok := old.heaps[h]; ok {
		init = oh
	}
	if init == nil || cur == init {
		return True
	}
	if _, _, ok := arrayParts(cur.Sort); !ok {
		return Eq(cur, init)
	}
	k, _, _ := arrayParts(cur.Sort)
	if k != SInt {
		return True
	}
	x := Sym("x!f", SInt)
	al0 := u.heapGet(old, "$alloc", ArraySort(SInt, SBool))
	cond := []*Term{Select(al0, x)}
	for _, r := range allowed[h] {
		cond = append(cond, Ne(x, r))
	}
	return Forall([]*Term{x}, Imp(And(cond...), Eq(Select(cur, x), Select(init, x))), []*Term{Select(cur, x)})
}


// exitReach: vacuity canary. The assumptions of at least one exit of the unit
// must be satisfiable; otherwise every postcondition was proved vacuously
// (e.g. by a contradictory assumed contract).
func (u *Unit) exitReach(exits []*State, pos token.Pos) {
	if u.quiet > 0 {
		return
	}
	if len(exits) == 0 {
		// no path reaches an exit: either every path died on a contradictory
		// assumption (vacuity) or the function never returns by design, which
		// its contract must say (`noreturn`)
		if u.spec != nil {
			if _, ok := u.spec.Extra["noreturn"]; ok {
				return
			}
		}
		u.kindN["vacuity"]++
		u.obls = append(u.obls, &Obligation{
			Name: fmt.Sprintf("%s#vacuity.%d", u.name, u.kindN["vacuity"]), Unit: u.name, Kind: "vacuity", Pos: u.pos(pos),
			Desc: "no exit of the function is reachable on any path (contradictory assumptions, or a never-returning function whose contract lacks `noreturn`)", Status: "failed-static",
		})
		return
	}
	base := commonPrefix(exits)
	var alts []*Term
	for _, e := range exits {
		alts = append(alts, And(e.assume[base:]...))
	}
	as := append([]*Term(nil), exits[0].assume[:base]...)
	as = append(as, Or(alts...))
	u.kindN["vacuity"]++
	u.obls = append(u.obls, &Obligation{
		Name: fmt.Sprintf("%s#vacuity.%d", u.name, u.kindN["vacuity"]), Unit: u.name, Kind: "vacuity", Pos: u.pos(pos),
		Desc: "some exit of the function is reachable (assumptions are consistent)", Assumes: as, Goal: False,
	})
}


func (c *ExecCtx) extraLocks(st *State) bool {
	n := len(st.condLocks)
	for k := range st.locks {
		held := false
		for _, e := range c.u.heldAtEntry {
			if e == k {
				held = true
			}
		}
		if !held {
			n++
		}
	}
	return n > 0
}
