package main

// Engine core: loaded packages, function index, symbolic state, obligations,
// state forking and merging.

import (
	"fmt"
	"go/ast"
	"go/token"
	"go/types"
	"sort"
	"strings"

	"golang.org/x/tools/go/packages"
)

type FuncInfo struct {
	Obj  *types.Func
	Decl *ast.FuncDecl
	Pkg  *packages.Package
}

type Engine struct {
	d     *Decls
	tm    *TypeMap
	fset  *token.FileSet
	pkgs  map[string]*packages.Package // by import path
	funcs map[*types.Func]*FuncInfo
	byKey map[string]*FuncInfo // FullName -> info
	specs *SpecDB
	nsym  int

	chanFieldEscapes map[*types.Var]bool // channel-typed fields that are closed, copied or passed on somewhere
	goLedgerOn     bool // every go statement must be acknowledged by an anchor
	nullableFields map[*types.Var]bool  // fields compared with nil somewhere in the module
	mayNilFuncs    map[*types.Func]bool // module funcs that return a literal nil pointer
	abstracted     map[string]bool      // names of calls abstracted (for evidence)
	externUsed     map[string]bool
	warnings       []string

	importNames     map[string]map[string]*types.Package // module pkg path -> import name -> package
	globalImports   map[string]*types.Package
	allTypes        map[string]*types.Package
	ghostFieldTypes map[*GhostField]types.Type
	axiomNames      []string
	debug           bool
	implCache       map[string][]types.Type
	impClosure      map[*types.Package]map[*types.Package]bool
	funcAxiomDone   map[string]bool
}

type Val struct {
	T  *Term
	Ty types.Type
}

type Obligation struct {
	Name    string
	Unit    string
	Kind    string
	Pos     string
	Desc    string
	Assumes []*Term
	Goal    *Term
	// result
	Status  string // "unsat" (discharged), "sat", "unknown", "trivial", "failed-static"
	Solver  string
	TimeS   float64
	Model   string
	Script  string
	Static  bool // decided by the engine without SMT (lockset, ledger, syntactic)
	StaticOK bool
}

type deferred struct {
	call *ast.CallExpr
	lit  *ast.FuncLit
	recv *Val
	args []Val
	fn   *types.Func
	info *types.Info
	pkg  *packages.Package
}

type State struct {
	vars     map[types.Object]*Term
	heaps    map[string]*Term
	assume   []*Term
	locks    map[string]int // lock key -> 1 write-held, 2 read-held
	defers   []deferred
	dead     bool
	volatile map[types.Object]bool
	funcLits map[string]*closure // func value symbol name -> literal
	results  []Val               // set at return
	ghost    map[string]*Term    // unit-level ghost variables
	closed   map[string]bool     // channels known closed on this path (by key)
	tags     map[string]bool     // path tags (e.g. "called:X") for path obligations
	condLocks []condLock         // locks held under a condition (CtxMutex.Lock(ctx) == nil)
	lockIdx  map[string]*Term    // index term of indexed locks held
	lockAlias map[types.Object]lockAliasT // local pointer variables that alias a lock (&x.locks[i])
	joiners  map[types.Object][]string    // volatile variable -> wait groups whose Wait makes it stable again
}

type lockAliasT struct {
	key   string
	idx   *Term
	field string
}

type closure struct {
	lit  *ast.FuncLit
	info *types.Info
	pkg  *packages.Package
}

func newState() *State {
	return &State{vars: map[types.Object]*Term{}, heaps: map[string]*Term{}, locks: map[string]int{}, volatile: map[types.Object]bool{}, funcLits: map[string]*closure{}, ghost: map[string]*Term{}, closed: map[string]bool{}, tags: map[string]bool{}, lockIdx: map[string]*Term{}}
}

func (s *State) fork() *State {
	n := &State{
		vars:     make(map[types.Object]*Term, len(s.vars)),
		heaps:    make(map[string]*Term, len(s.heaps)),
		assume:   s.assume[:len(s.assume):len(s.assume)],
		locks:    make(map[string]int, len(s.locks)),
		defers:   s.defers[:len(s.defers):len(s.defers)],
		dead:     s.dead,
		volatile: make(map[types.Object]bool, len(s.volatile)),
		funcLits: make(map[string]*closure, len(s.funcLits)),
		results:  s.results,
		ghost:    make(map[string]*Term, len(s.ghost)),
		closed:   make(map[string]bool, len(s.closed)),
		tags:     make(map[string]bool, len(s.tags)),
		condLocks: s.condLocks[:len(s.condLocks):len(s.condLocks)],
		lockIdx:  make(map[string]*Term, len(s.lockIdx)),
		lockAlias: s.lockAlias,
		joiners:  s.joiners,
	}
	for k, v := range s.lockIdx {
		n.lockIdx[k] = v
	}
	for k, v := range s.vars {
		n.vars[k] = v
	}
	for k, v := range s.heaps {
		n.heaps[k] = v
	}
	for k, v := range s.locks {
		n.locks[k] = v
	}
	for k, v := range s.volatile {
		n.volatile[k] = v
	}
	for k, v := range s.funcLits {
		n.funcLits[k] = v
	}
	for k, v := range s.ghost {
		n.ghost[k] = v
	}
	for k, v := range s.closed {
		n.closed[k] = v
	}
	for k, v := range s.tags {
		n.tags[k] = v
	}
	return n
}

// become overwrites s with o (used after merging).
func (s *State) become(o *State) { *s = *o }

func (s *State) assumeT(t *Term) {
	if isTrue(t) {
		return
	}
	if isFalse(t) {
		s.dead = true
	}
	s.assume = append(s.assume, t)
}

// Unit is one verification unit (a function, a func literal, or a lemma).
type Unit struct {
	eng      *Engine
	name     string
	obls     []*Obligation
	initHeap map[string]*Term
	kindN    map[string]int
	nstates  int
	unsupported []string
	recording *recorder // non-nil during a loop dry run
	quiet    int       // >0: do not emit obligations (dry run)
	entry    *State
	fnObj    *types.Func
	spec     *FuncSpec
	sweep    bool // emit zero-annotation safety obligations
	inlineStack []*types.Func
	boxVar   func(st *State, v *types.Var) // moves a local into a cell (set by VerifyFunc)
	loopOrd  map[*ast.FuncDecl]int
	specErrors []string
	ghostTypes map[string]types.Type
	ghostDecl  map[string]ghostDecl
	assumesUsed []string
	havocAll   bool
	implicitNonNil []string
	nreturns   int
	stale      []string
	lastSortPi, lastSortInv string
	elemWrite  int
	fieldWrite int // >=0 while assigning v.f = x on a struct variable: index of f
	heldAtEntry []string
	captured   map[string]bool // symbols standing for captured (outer) variables
	capturedInit map[*types.Var]*Term
}

type recorder struct {
	vars  map[types.Object]bool
	heaps map[string]bool
	ghost map[string]bool
	fieldOnly map[types.Object]map[int]bool // struct variables written only through v.f = x (top-level field indices)
	elemOnly map[types.Object]bool // slice variables written only through s[i] = v
	fullVar  map[types.Object]bool
	refs  map[string][]*Term // heap -> object refs written (when all writes are simple stores)
	whole map[string]bool    // heap replaced wholesale
	startSym int
}

func (e *Engine) fresh(base, srt string) *Term {
	e.nsym++
	name := fmt.Sprintf("%s@%d", sanitize(base), e.nsym)
	return e.d.Const(name, srt)
}

func (u *Unit) fresh(base, srt string) *Term { return u.eng.fresh(base, srt) }

func (u *Unit) heapGet(st *State, name, srt string) *Term {
	if h, ok := st.heaps[name]; ok {
		return h
	}
	if h, ok := u.initHeap[name]; ok {
		return h
	}
	h := u.eng.d.Const(sanitize(name)+"@init", srt)
	u.initHeap[name] = h
	return h
}

func (u *Unit) heapSet(st *State, name string, t *Term) {
	if u.recording != nil {
		rec := u.recording
		rec.heaps[name] = true
		prev, ok := st.heaps[name]
		if !ok {
			prev = u.initHeap[name]
		}
		// peel store chain
		cur := t
		var refs []*Term
		for cur != prev && cur.Op == "app" && cur.Name == "store" && len(cur.Args) == 3 {
			refs = append(refs, cur.Args[1])
			cur = cur.Args[0]
		}
		if cur == prev && prev != nil && rec.refs != nil {
			rec.refs[name] = append(rec.refs[name], refs...)
		} else if rec.whole != nil {
			rec.whole[name] = true
		}
	}
	if t.Op == "sym" {
		prev, ok := st.heaps[name]
		if !ok {
			prev = u.initHeap[name]
		}
		u.immutKeep(st, name, prev, t)
	}
	st.heaps[name] = t
}

// immutKeep: immutable sub-fields of struct VALUES stored in heap `name`
// (embedded structs) are the same in heap nw as in heap prev.
func (u *Unit) immutKeep(st *State, name string, prev, nw *Term) {
	accs := u.eng.tm.valueImmut[name]
	if len(accs) == 0 || prev == nil || nw == nil || prev == nw || prev.Sort != nw.Sort {
		return
	}
	r := Sym("r!im", SInt)
	for _, a := range accs {
		st.assumeT(Forall([]*Term{r}, Eq(App(a.acc, a.sort, Select(nw, r)), App(a.acc, a.sort, Select(prev, r))), []*Term{Select(nw, r)}))
	}
}

func (u *Unit) varSet(st *State, obj types.Object, t *Term) {
	st.vars[obj] = t
	if u.recording != nil {
		u.recording.vars[obj] = true
		if u.elemWrite > 0 {
			if u.recording.elemOnly != nil {
				u.recording.elemOnly[obj] = true
			}
		} else if u.fieldWrite >= 0 {
			if u.recording.fieldOnly != nil {
				if u.recording.fieldOnly[obj] == nil {
					u.recording.fieldOnly[obj] = map[int]bool{}
				}
				u.recording.fieldOnly[obj][u.fieldWrite] = true
			}
		} else if u.recording.fullVar != nil {
			u.recording.fullVar[obj] = true
		}
	}
}

func (u *Unit) ghostSet(st *State, name string, t *Term) {
	st.ghost[name] = t
	if u.recording != nil {
		u.recording.ghost[name] = true
	}
}

// define introduces a named symbol equal to t (keeps terms small).
func (u *Unit) define(st *State, base string, t *Term) *Term {
	if t.Op == "sym" || t.Op == "lit" {
		return t
	}
	s := u.fresh(base, t.Sort)
	st.assume = append(st.assume, Eq(s, t))
	return s
}

func (u *Unit) pos(p token.Pos) string {
	pp := u.eng.fset.Position(p)
	f := pp.Filename
	f = strings.TrimPrefix(f, "/repo/")
	return fmt.Sprintf("%s:%d", f, pp.Line)
}

// oblige emits an SMT obligation. Conjunctive / universally quantified goals
// are split into one obligation per conjunct with the top-level quantifiers
// skolemised (measured: the difference between timeouts and 0.02 s).
func (u *Unit) oblige(st *State, kind string, goal *Term, p token.Pos, desc string) {
	if u.quiet > 0 || st.dead {
		return
	}
	u.kindN[kind]++
	base := fmt.Sprintf("%s#%s.%d", u.name, kind, u.kindN[kind])
	pieces := u.splitGoal(goal, 0)
	if len(pieces) > 24 {
		pieces = []goalPiece{{nil, goal}}
	}
	for i, pc := range pieces {
		name := base
		if len(pieces) > 1 {
			name = fmt.Sprintf("%s/%d", base, i+1)
		}
		as := append([]*Term(nil), st.assume...)
		as = append(as, pc.hyps...)
		ob := &Obligation{Name: name, Unit: u.name, Kind: kind, Pos: u.pos(p), Desc: desc, Assumes: as, Goal: pc.concl}
		if isTrue(pc.concl) {
			ob.Status = "trivial"
		}
		u.obls = append(u.obls, ob)
	}
}

type goalPiece struct {
	hyps  []*Term
	concl *Term
}

func (u *Unit) splitGoal(g *Term, depth int) []goalPiece {
	if depth > 12 {
		return []goalPiece{{nil, g}}
	}
	switch {
	case g.Op == "app" && g.Name == "and":
		var out []goalPiece
		for _, a := range g.Args {
			out = append(out, u.splitGoal(a, depth+1)...)
		}
		return out
	case g.Op == "forall":
		m := map[string]*Term{}
		for _, v := range g.Vars {
			m[v.Name] = u.fresh("sk_"+v.Name, v.Sort)
		}
		return u.splitGoal(subst(g.Args[0], m), depth+1)
	case g.Op == "app" && g.Name == "=>":
		sub := u.splitGoal(g.Args[1], depth+1)
		for i := range sub {
			sub[i].hyps = append([]*Term{g.Args[0]}, sub[i].hyps...)
		}
		return sub
	}
	return []goalPiece{{nil, g}}
}

// obligeStatic emits an obligation decided by the engine itself.
func (u *Unit) obligeStatic(st *State, kind string, ok bool, p token.Pos, desc string) {
	if u.quiet > 0 || (st != nil && st.dead) {
		return
	}
	u.kindN[kind]++
	ob := &Obligation{
		Name:   fmt.Sprintf("%s#%s.%d", u.name, kind, u.kindN[kind]),
		Unit:   u.name,
		Kind:   kind,
		Pos:    u.pos(p),
		Desc:   desc,
		Static: true, StaticOK: ok,
	}
	// A static obligation that fails on a feasible path only matters if the
	// path is feasible: turn failures into an SMT query "path infeasible".
	if !ok && st != nil {
		ob.Static = false
		ob.Assumes = append([]*Term(nil), st.assume...)
		ob.Goal = False
	} else if ok {
		ob.Status = "static"
	} else {
		ob.Status = "failed-static"
	}
	u.obls = append(u.obls, ob)
}

func (u *Unit) unsupportedf(p token.Pos, format string, args ...any) {
	if u.quiet > 0 {
		return
	}
	msg := fmt.Sprintf("%s: %s", u.pos(p), fmt.Sprintf(format, args...))
	for _, m := range u.unsupported {
		if m == msg {
			return
		}
	}
	u.unsupported = append(u.unsupported, msg)
}

// ---------------------------------------------------------------------------
// merging

// mergeStates merges states that share the first baseLen assumptions.
func (u *Unit) mergeStates(baseLen int, states []*State) *State {
	var live []*State
	for _, s := range states {
		if s != nil && !s.dead {
			live = append(live, s)
		}
	}
	if len(live) == 0 {
		d := newState()
		d.dead = true
		if len(states) > 0 && states[0] != nil {
			d = states[0].fork()
			d.dead = true
		}
		return d
	}
	if len(live) == 1 {
		return live[0]
	}
	// defers must agree
	for _, s := range live[1:] {
		if len(s.defers) != len(live[0].defers) {
			return nil
		}
	}
	// a local whose address was taken on some paths only lives in a cell
	// there (BOX) and as a plain value elsewhere: move it into a cell on the
	// other paths too, so that the merged state has one representation
	if u.boxVar != nil {
		boxed := map[*types.Var]bool{}
		for _, s := range live {
			for k, v := range s.vars {
				if lv, ok := k.(*types.Var); ok && v.Sort == "BOX" {
					boxed[lv] = true
				}
			}
		}
		for lv := range boxed {
			for _, s := range live {
				if v, ok := s.vars[lv]; ok && v.Sort != "BOX" {
					u.boxVar(s, lv)
				}
			}
		}
	}
	out := live[0].fork()
	out.assume = live[0].assume[:baseLen:baseLen]
	guards := make([]*Term, len(live))
	for i := range live {
		guards[i] = u.fresh("g", SBool)
	}
	out.assume = append(out.assume, Or(guards...))
	for i, s := range live {
		for _, a := range s.assume[baseLen:] {
			out.assume = append(out.assume, Imp(guards[i], a))
		}
	}
	// vars
	varKeys := map[types.Object]bool{}
	for _, s := range live {
		for k := range s.vars {
			varKeys[k] = true
		}
	}
	for k := range varKeys {
		first, ok0 := live[0].vars[k]
		same := ok0
		for _, s := range live[1:] {
			if v, ok := s.vars[k]; !ok || v != first {
				same = false
			}
		}
		if same {
			out.vars[k] = first
			continue
		}
		// variable missing in some state: declared inside a branch; drop it
		var srt string
		all := true
		for _, s := range live {
			if v, ok := s.vars[k]; ok {
				srt = v.Sort
			} else {
				all = false
			}
		}
		if !all {
			delete(out.vars, k)
			continue
		}
		if srt == "BOX" {
			// boxed (address-taken) variable with different cells per path:
			// merge the cell references, keep the variable boxed
			allBox := true
			for _, s := range live {
				if v := s.vars[k]; v.Sort != "BOX" || len(v.Args) != 1 {
					allBox = false
				}
			}
			if allBox {
				mi := u.fresh("m_"+k.Name()+"_cell", SInt)
				for i, s := range live {
					out.assume = append(out.assume, Imp(guards[i], Eq(mi, s.vars[k].Args[0])))
				}
				out.vars[k] = boxTerm(mi)
				continue
			}
		}
		m := u.fresh("m_"+k.Name(), srt)
		for i, s := range live {
			out.assume = append(out.assume, Imp(guards[i], Eq(m, s.vars[k])))
		}
		out.vars[k] = m
	}
	// heaps
	heapKeys := map[string]bool{}
	for _, s := range live {
		for k := range s.heaps {
			heapKeys[k] = true
		}
	}
	hk := make([]string, 0, len(heapKeys))
	for k := range heapKeys {
		hk = append(hk, k)
	}
	sort.Strings(hk)
	for _, k := range hk {
		var first *Term
		same := true
		vals := make([]*Term, len(live))
		for i, s := range live {
			v, ok := s.heaps[k]
			if !ok {
				v = u.initHeap[k]
			}
			vals[i] = v
			if i == 0 {
				first = v
			} else if v != first {
				same = false
			}
		}
		if same {
			if first != nil {
				out.heaps[k] = first
			}
			continue
		}
		m := u.fresh("mh_"+k, vals[0].Sort)
		for i := range live {
			out.assume = append(out.assume, Imp(guards[i], Eq(m, vals[i])))
		}
		out.heaps[k] = m
	}
	// ghost vars
	gk := map[string]bool{}
	for _, s := range live {
		for k := range s.ghost {
			gk[k] = true
		}
	}
	for k := range gk {
		first := live[0].ghost[k]
		same := first != nil
		for _, s := range live[1:] {
			if s.ghost[k] != first {
				same = false
			}
		}
		if same {
			out.ghost[k] = first
			continue
		}
		var srt string
		all := true
		for _, s := range live {
			if v := s.ghost[k]; v != nil {
				srt = v.Sort
			} else {
				all = false
			}
		}
		if !all && !strings.HasPrefix(k, "$tag:") {
			delete(out.ghost, k)
			continue
		}
		m := u.fresh("mg_"+k, srt)
		for i, s := range live {
			v := s.ghost[k]
			if v == nil {
				v = False // a path tag that was never set on this path
			}
			out.assume = append(out.assume, Imp(guards[i], Eq(m, v)))
		}
		out.ghost[k] = m
	}
	// locks: intersection
	for k := range out.locks {
		for _, s := range live[1:] {
			if s.locks[k] != out.locks[k] {
				delete(out.locks, k)
				break
			}
		}
	}
	// conditional locks: keep only those present in all
	{
		var keep []condLock
		for _, cl := range out.condLocks {
			inAll := true
			for _, s := range live[1:] {
				f := false
				for _, c2 := range s.condLocks {
					if c2.key == cl.key && c2.cond == cl.cond {
						f = true
					}
				}
				if !f {
					inAll = false
				}
			}
			if inAll {
				keep = append(keep, cl)
			}
		}
		out.condLocks = keep
	}
	// closed: a channel is "known closed" only if closed in all; but for the
	// double-close check we need "possibly closed": keep union with value false
	// meaning "maybe". We track definite closure only.
	for k := range out.closed {
		for _, s := range live[1:] {
			if !s.closed[k] {
				delete(out.closed, k)
				break
			}
		}
	}
	for k := range out.tags {
		for _, s := range live[1:] {
			if !s.tags[k] {
				delete(out.tags, k)
				break
			}
		}
	}
	for _, s := range live[1:] {
		for k, v := range s.volatile {
			if v {
				out.volatile[k] = true
			}
		}
		for k, v := range s.funcLits {
			out.funcLits[k] = v
		}
	}
	// results (return values) merged by caller
	return out
}

// mergeOrKeep merges when possible, otherwise returns the live states.
func (u *Unit) mergeOrKeep(baseLen int, states []*State) []*State {
	var live []*State
	for _, s := range states {
		if s != nil && !s.dead {
			live = append(live, s)
		}
	}
	if len(live) <= 1 {
		return live
	}
	m := u.mergeStates(baseLen, live)
	if m == nil {
		return live
	}
	return []*State{m}
}

// ---------------------------------------------------------------------------
// loading

func LoadEngine(dir string, patterns []string) (*Engine, error) {
	cfg := &packages.Config{
		Mode: packages.NeedName | packages.NeedSyntax | packages.NeedTypes | packages.NeedTypesInfo |
			packages.NeedDeps | packages.NeedImports | packages.NeedFiles | packages.NeedCompiledGoFiles | packages.NeedModule,
		Dir:        dir,
		BuildFlags: []string{"-tags=verif"},
		ParseFile: func(fset *token.FileSet, filename string, src []byte) (*ast.File, error) {
			return parseGoFile(fset, filename, src)
		},
	}
	pkgs, err := packages.Load(cfg, patterns...)
	if err != nil {
		return nil, err
	}
	d := NewDecls()
	e := &Engine{d: d, tm: NewTypeMap(d), pkgs: map[string]*packages.Package{}, funcs: map[*types.Func]*FuncInfo{}, byKey: map[string]*FuncInfo{},
		nullableFields: map[*types.Var]bool{}, mayNilFuncs: map[*types.Func]bool{}, abstracted: map[string]bool{}, externUsed: map[string]bool{},
		importNames: map[string]map[string]*types.Package{}, globalImports: map[string]*types.Package{}, allTypes: map[string]*types.Package{}, ghostFieldTypes: map[*GhostField]types.Type{}}
	var nerr int
	packages.Visit(pkgs, nil, func(p *packages.Package) {
		if p.Types != nil {
			e.allTypes[p.PkgPath] = p.Types
		}
		if p.Module == nil || p.Module.Path != modulePath {
			return
		}
		imap := map[string]*types.Package{}
		e.importNames[p.PkgPath] = imap
		for _, f := range p.Syntax {
			for _, is := range f.Imports {
				var pn *types.PkgName
				if is.Name != nil {
					pn, _ = p.TypesInfo.Defs[is.Name].(*types.PkgName)
				} else {
					pn, _ = p.TypesInfo.Implicits[is].(*types.PkgName)
				}
				if pn != nil {
					imap[pn.Name()] = pn.Imported()
					if _, ok := e.globalImports[pn.Name()]; !ok {
						e.globalImports[pn.Name()] = pn.Imported()
					}
				}
			}
		}
		for _, er := range p.Errors {
			nerr++
			e.warnings = append(e.warnings, "load error: "+er.Error())
		}
		e.pkgs[p.PkgPath] = p
		if e.fset == nil {
			e.fset = p.Fset
		}
		for _, f := range p.Syntax {
			for _, decl := range f.Decls {
				if gd, ok := decl.(*ast.GenDecl); ok && gd.Tok == token.TYPE {
					for _, sp := range gd.Specs {
						ts := sp.(*ast.TypeSpec)
						if _, isStruct := ts.Type.(*ast.StructType); isStruct {
							if tn, ok := p.TypesInfo.Defs[ts.Name].(*types.TypeName); ok {
								if n, ok := tn.Type().(*types.Named); ok {
									if st, ok := n.Underlying().(*types.Struct); ok {
										e.tm.structNames[st] = shortTypeName(n)
									}
								}
							}
						}
					}
				}
				fd, ok := decl.(*ast.FuncDecl)
				if !ok {
					continue
				}
				obj, _ := p.TypesInfo.Defs[fd.Name].(*types.Func)
				if obj == nil {
					continue
				}
				fi := &FuncInfo{Obj: obj, Decl: fd, Pkg: p}
				e.funcs[obj] = fi
				e.byKey[obj.FullName()] = fi
			}
		}
	})
	if nerr > 0 {
		return e, fmt.Errorf("%d load errors: %v", nerr, e.warnings)
	}
	if e.fset == nil {
		return nil, fmt.Errorf("no module packages loaded")
	}
	e.scanNullability()
	return e, nil
}

// scanNullability marks struct fields that the module compares with nil and
// module functions that return a literal nil for a pointer result.

// scanFuncFieldLits: a func-typed field left out of a keyed struct literal is
// nil until somebody sets it. Such a field may be nil unless the function that
// builds the literal also assigns the field (constructors that fill it in a
// second step).
func (e *Engine) scanFuncFieldLits(info *types.Info, body ast.Node) {
	assigned := map[*types.Var]bool{}
	ast.Inspect(body, func(n ast.Node) bool {
		if as, ok := n.(*ast.AssignStmt); ok {
			for _, l := range as.Lhs {
				if sel, ok := ast.Unparen(l).(*ast.SelectorExpr); ok {
					if s := info.Selections[sel]; s != nil {
						if v, ok := s.Obj().(*types.Var); ok {
							assigned[v] = true
						}
					}
				}
			}
		}
		return true
	})
	ast.Inspect(body, func(n ast.Node) bool {
		x, ok := n.(*ast.CompositeLit)
		if !ok {
			return true
		}
		tv, ok := info.Types[x]
		if !ok {
			return true
		}
		_, stt := structOf(derefType(tv.Type))
		if stt == nil {
			return true
		}
		given := map[string]bool{}
		keyed := len(x.Elts) == 0
		for _, el := range x.Elts {
			if kv, ok := el.(*ast.KeyValueExpr); ok {
				keyed = true
				if id, ok := kv.Key.(*ast.Ident); ok {
					given[id.Name] = true
				}
			}
		}
		if !keyed {
			return true
		}
		for i := 0; i < stt.NumFields(); i++ {
			f := stt.Field(i)
			if _, isFn := unalias(f.Type()).Underlying().(*types.Signature); isFn && !given[f.Name()] && !assigned[f] {
				e.nullableFields[f] = true
			}
		}
		return true
	})
}

func (e *Engine) scanNullability() {
	for _, p := range e.pkgs {
		info := p.TypesInfo
		for _, f := range p.Syntax {
			ast.Inspect(f, func(n ast.Node) bool {
				switch x := n.(type) {
				case *ast.BinaryExpr:
					if x.Op == token.EQL || x.Op == token.NEQ {
						for _, pair := range [][2]ast.Expr{{x.X, x.Y}, {x.Y, x.X}} {
							if id, ok := pair[1].(*ast.Ident); ok && id.Name == "nil" {
								if sel, ok := ast.Unparen(pair[0]).(*ast.SelectorExpr); ok {
									if s := info.Selections[sel]; s != nil {
										if v, ok := s.Obj().(*types.Var); ok && v.IsField() {
											e.nullableFields[v] = true
										}
									}
								}
							}
						}
					}
				}
				return true
			})
			for _, decl := range f.Decls {
				fd, ok := decl.(*ast.FuncDecl)
				if !ok || fd.Body == nil {
					if gd, ok := decl.(*ast.GenDecl); ok {
						e.scanFuncFieldLits(info, gd)
					}
					continue
				}
				e.scanFuncFieldLits(info, fd.Body)
				obj, _ := info.Defs[fd.Name].(*types.Func)
				if obj == nil {
					continue
				}
				ast.Inspect(fd.Body, func(n ast.Node) bool {
					if _, ok := n.(*ast.FuncLit); ok {
						return false
					}
					if r, ok := n.(*ast.ReturnStmt); ok {
						for _, x := range r.Results {
							if id, ok := x.(*ast.Ident); ok && id.Name == "nil" {
								e.mayNilFuncs[obj] = true
							}
						}
						if len(r.Results) == 0 {
							e.mayNilFuncs[obj] = true // named results: be conservative
						}
					}
					return true
				})
			}
		}
	}
}
