package main

// Calls: conversions, builtins, contracts, inlining, havoc.

import (
	"fmt"
	"go/ast"
	"go/token"
	"go/types"
	"strings"
)

const maxInlineDepth = 4
const maxInlineStmts = 25

func (c *ExecCtx) evalCall(st *State, call *ast.CallExpr) []Val {
	if st.dead {
		return nil
	}
	// conversion?
	if tv, ok := c.info.Types[call.Fun]; ok && tv.IsType() {
		v := c.eval(st, call.Args[0])
		return []Val{c.conversion(st, v, tv.Type, call.Pos())}
	}
	fun := ast.Unparen(call.Fun)
	// strip explicit instantiation
	switch f := fun.(type) {
	case *ast.IndexExpr:
		if _, ok := unalias(c.typeOf(f.X)).Underlying().(*types.Signature); ok {
			fun = ast.Unparen(f.X)
		}
	case *ast.IndexListExpr:
		fun = ast.Unparen(f.X)
	}
	// builtin?
	if id, ok := fun.(*ast.Ident); ok {
		if b, ok := c.info.Uses[id].(*types.Builtin); ok {
			return c.evalBuiltin(st, b.Name(), call)
		}
	}
	// immediate func literal call
	if lit, ok := fun.(*ast.FuncLit); ok {
		args := c.evalArgs(st, call, c.typeOf(lit).(*types.Signature), nil)
		return c.inlineLit(st, &closure{lit: lit, info: c.info, pkg: c.pkg}, args, call.Pos())
	}
	var fn *types.Func
	var recv *Val
	var recvExpr ast.Expr
	switch f := fun.(type) {
	case *ast.Ident:
		fn, _ = c.info.Uses[f].(*types.Func)
	case *ast.SelectorExpr:
		if sel, ok := c.info.Selections[f]; ok {
			if sel.Kind() == types.MethodVal {
				fn, _ = sel.Obj().(*types.Func)
				recvExpr = f.X
				if k, handled := c.syncCall(st, fn, f, call); handled {
					return k
				}
				if fn != nil && c.isNoEffect(fn) {
					sig := fn.Type().(*types.Signature)
					nargs := c.evalArgs(st, call, sig, nil)
					nres := c.freshResults(st, sig, fn, false)
					c.ctxDerive(st, fn, nargs, nres)
					return nres
				}
				rv := c.evalRecvFor(st, f, sel)
				recv = &rv
			} else if sel.Kind() == types.FieldVal {
				// call of a func-typed field
				fv := c.eval(st, f)
				return c.dynamicCall(st, fv, call)
			}
		} else {
			fn, _ = c.info.Uses[f.Sel].(*types.Func)
		}
	}
	if fn == nil {
		fv := c.eval(st, fun)
		return c.dynamicCall(st, fv, call)
	}
	if fn.FullName() == "sort.Sort" && len(call.Args) == 1 {
		if c.sortSort(st, call) {
			c.runCallAnchors(st, fn, call, nil)
			return nil
		}
	}
	sig := fn.Type().(*types.Signature)
	// generic callee: use the instantiated signature
	if sig.TypeParams().Len() > 0 || sig.RecvTypeParams().Len() > 0 {
		var id *ast.Ident
		switch f := fun.(type) {
		case *ast.Ident:
			id = f
		case *ast.SelectorExpr:
			id = f.Sel
		}
		if id != nil {
			if inst, ok := c.info.Instances[id]; ok {
				if isig, ok := inst.Type.(*types.Signature); ok {
					sig = isig
				}
			}
		}
	}
	args := c.evalArgs(st, call, sig, nil)
	c.runBeforeCallAnchors(st, fn, call, recv, args)
	c.instSig = sig // (after the arguments: nested generic calls set their own)
	res := c.dispatch(st, fn, recv, args, call.Pos(), call)
	c.ctxDerive(st, fn, args, res)
	// context contract: once Done() has delivered, Err() is non-nil
	if fn.FullName() == "(context.Context).Err" && recvExpr != nil && len(res) == 1 {
		st.assumeT(Imp(st.tagTerm("recv:"+exprString(recvExpr)+".Done()"), Ne(res[0].T, IntLit(0))))
		// Err() is sticky: once non-nil it stays non-nil
		k := "ctxerr:" + exprString(recvExpr)
		prev := st.tagTerm(k)
		st.assumeT(Imp(prev, Ne(res[0].T, IntLit(0))))
		c.u.ghostSet(st, "$tag:"+k, c.u.define(st, "ctxerr", Or(prev, Ne(res[0].T, IntLit(0)))))
	}
	c.callArgs, c.callRecv = args, recv
	c.runCallAnchors(st, fn, call, res)
	c.callArgs, c.callRecv = nil, nil
	return res
}

// evalRecvFor evaluates the receiver of a method call, following embedded
// field paths and adjusting for pointer/value receivers.
func (c *ExecCtx) evalRecvFor(st *State, f *ast.SelectorExpr, sel *types.Selection) Val {
	u := c.u
	fn := sel.Obj().(*types.Func)
	base := c.eval(st, f.X)
	path := sel.Index()
	cur := base
	if len(path) > 1 {
		cur = c.walkFieldPath(st, base, path[:len(path)-1], f.Pos())
	}
	rsig := fn.Type().(*types.Signature)
	if rsig.Recv() == nil {
		return cur
	}
	rt := unalias(rsig.Recv().Type())
	_, wantPtr := rt.Underlying().(*types.Pointer)
	if isInterface(rt) {
		return cur
	}
	_, havePtr := unalias(cur.Ty).Underlying().(*types.Pointer)
	if wantPtr && !havePtr {
		// need the address of an addressable value
		if id, ok := ast.Unparen(f.X).(*ast.Ident); ok && len(path) == 1 {
			if v, ok := c.info.ObjectOf(id).(*types.Var); ok && !isPkgLevel(v) {
				addr := c.evalAddrOf(st, &ast.UnaryExpr{Op: token.AND, X: id, OpPos: f.Pos()})
				return Val{addr.T, types.NewPointer(cur.Ty)}
			}
		}
		// address of a field or element: identified by an injective ghost
		// function of the container reference
		r := c.fieldAddr(st, f.X, cur)
		return Val{r, types.NewPointer(cur.Ty)}
	}
	if !wantPtr && havePtr {
		return c.deref(st, cur, f.Pos())
	}
	_ = u
	return cur
}

// fieldAddr gives a stable non-nil pseudo-address for &x.f style receivers.
func (c *ExecCtx) fieldAddr(st *State, e ast.Expr, cur Val) *Term {
	u := c.u
	if se, ok := ast.Unparen(e).(*ast.SelectorExpr); ok {
		if sel, ok := c.info.Selections[se]; ok && sel.Kind() == types.FieldVal {
			b := c.eval(st, se.X)
			if b.T.Sort == SInt {
				fnm := "addr_" + sanitize(shortTypeName(b.Ty)+"_"+se.Sel.Name)
				u.eng.d.Fun(fnm, []string{SInt}, SInt)
				r := App(fnm, SInt, b.T)
				st.assumeT(Ne(r, IntLit(0)))
				return r
			}
		}
	}
	r := u.fresh("addr", SInt)
	st.assumeT(Ne(r, IntLit(0)))
	return r
}

func (c *ExecCtx) evalArgs(st *State, call *ast.CallExpr, sig *types.Signature, pre []Val) []Val {
	if len(call.Args) == 0 && sig.Params().Len() > 0 && !sig.Variadic() {
		return nil
	}
	u := c.u
	np := sig.Params().Len()
	var out []Val
	if tup, isTuple := c.typeOfArg0(call).(*types.Tuple); len(call.Args) == 1 && np > 1 && isTuple && tup.Len() > 1 {
		// f(g()) with multi-value g
		vals := c.evalMulti(st, call.Args[0], np)
		for i := 0; i < np; i++ {
			out = append(out, Val{c.convert(st, vals[i], sig.Params().At(i).Type()), sig.Params().At(i).Type()})
		}
		return out
	}
	for i := 0; i < np; i++ {
		pt := sig.Params().At(i).Type()
		if sig.Variadic() && i == np-1 {
			st2 := unalias(pt).(*types.Slice)
			if call.Ellipsis != token.NoPos {
				v := c.eval(st, call.Args[i])
				out = append(out, Val{c.convert(st, v, pt), pt})
			} else {
				// pack remaining args
				srt := c.sortOfType(pt)
				es := c.sortOfType(st2.Elem())
				n := len(call.Args) - i
				if n <= 0 {
					out = append(out, Val{u.eng.tm.Zero(pt), pt})
				} else {
					arr := u.fresh("varargs", ArraySort(SInt, es))
					var t *Term = arr
					for j := 0; j < n; j++ {
						v := c.eval(st, call.Args[i+j])
						t = Store(t, IntLit(int64(j)), c.convert(st, v, st2.Elem()))
					}
					out = append(out, Val{u.define(st, "va", mkSlice(srt, t, IntLit(int64(n)), IntLit(int64(n)), False)), pt})
				}
			}
			break
		}
		if i >= len(call.Args) {
			break
		}
		v := c.eval(st, call.Args[i])
		out = append(out, Val{c.convert(st, v, pt), pt})
	}
	return out
}

func (c *ExecCtx) conversion(st *State, v Val, to types.Type, pos token.Pos) Val {
	u := c.u
	d := u.eng.d
	if isNilVal(v) {
		return Val{u.eng.tm.Zero(to), to}
	}
	toS := c.sortOfType(to)
	fromU, toU := unalias(v.Ty).Underlying(), unalias(to).Underlying()
	// string <-> []byte
	if toS == SStr && v.T.Sort != SStr {
		if _, ok := fromU.(*types.Slice); ok {
			return Val{c.bytesToStr(st, v.T), to}
		}
		if v.T.Sort == SInt {
			// string(r): UTF-8 of the code point; one byte for ASCII
			d.Fun("rune2s", []string{SInt}, SStr)
			r := App("rune2s", SStr, v.T)
			st.assumeT(Imp(And(Ge(v.T, IntLit(0)), Lt(v.T, IntLit(128))), Eq(c.strLen(r), IntLit(1))))
			st.assumeT(And(Ge(c.strLen(r), IntLit(1)), Le(c.strLen(r), IntLit(4))))
			return Val{r, to}
		}
	}
	if v.T.Sort == SStr && toS != SStr {
		if sl, ok := toU.(*types.Slice); ok {
			return Val{c.strToBytes(st, v.T, sl, to), to}
		}
	}
	if isInterface(to) && !isInterface(v.Ty) {
		return Val{c.box(v), to}
	}
	if v.T.Sort == SInt && toS == SInt {
		// integer narrowing
		if tb, ok := toU.(*types.Basic); ok {
			fb, _ := fromU.(*types.Basic)
			t := v.T
			switch tb.Kind() {
			case types.Uint8:
				if fb == nil || fb.Kind() != types.Uint8 {
					t = App("mod", SInt, t, IntLit(256))
				}
			case types.Uint16:
				if fb == nil || (fb.Kind() != types.Uint8 && fb.Kind() != types.Uint16) {
					t = App("mod", SInt, t, IntLit(65536))
				}
			case types.Uint32:
				if fb == nil || (fb.Kind() != types.Uint8 && fb.Kind() != types.Uint16 && fb.Kind() != types.Uint32) {
					t = App("mod", SInt, t, IntLit(4294967296))
				}
			case types.Int32, types.Int16, types.Int8:
				if fb != nil && fb.Kind() != tb.Kind() {
					// wrap-around is value dependent; keep the value when in range
					lo, hi, _ := intRange(to)
					w := u.fresh("narrow", SInt)
					st.assumeT(Imp(And(Ge(t, BigLit(lo)), Le(t, BigLit(hi))), Eq(w, t)))
					st.assumeT(And(Ge(w, BigLit(lo)), Le(w, BigLit(hi))))
					t = w
				}
			case types.Uint, types.Uint64, types.Uintptr:
				if fb != nil && fb.Info()&types.IsUnsigned == 0 {
					// deterministic: to_u64(x) = x for x >= 0, x + 2^64 otherwise
					d.Fun("to_u64", []string{SInt}, SInt)
					x := Sym("x!u", SInt)
					d.AddAxiom("to_u64_def", Forall([]*Term{x}, Eq(App("to_u64", SInt, x), Ite(Ge(x, IntLit(0)), x, Add(x, BigLit("18446744073709551616")))), []*Term{App("to_u64", SInt, x)}))
					t = App("to_u64", SInt, t)
				}
			}
			return Val{t, to}
		}
		return Val{v.T, to}
	}
	if v.T.Sort == toS {
		return Val{v.T, to}
	}
	if v.T.Sort == SInt && toS == SF64 {
		return Val{c.f64OfInt(v.T), to}
	}
	if v.T.Sort == SF64 && toS == SInt {
		d.Fun("f64_to_int", []string{SF64}, SInt)
		return Val{App("f64_to_int", SInt, v.T), to}
	}
	u.unsupportedf(pos, "conversion %s -> %s", v.Ty, to)
	return Val{u.fresh("conv", toS), to}
}

func (c *ExecCtx) bytesToStr(st *State, b *Term) *Term {
	d := c.u.eng.d
	es, _ := sliceElemSort(b.Sort)
	fn := "b2s_" + sanitize(es)
	d.Fun(fn, []string{ArraySort(SInt, es), SInt}, SStr)
	r := App(fn, SStr, slArr(b), slLen(b))
	c.strLen(r)
	a, n := Sym("a!b", ArraySort(SInt, es)), Sym("n!b", SInt)
	d.AddAxiom("slen_"+fn, Forall([]*Term{a, n}, Imp(Ge(n, IntLit(0)), Eq(App("slen", SInt, App(fn, SStr, a, n)), n)), []*Term{App(fn, SStr, a, n)}))
	return r
}

func (c *ExecCtx) strToBytes(st *State, s *Term, sl *types.Slice, to types.Type) *Term {
	d := c.u.eng.d
	es := c.sortOfType(sl.Elem())
	srt := c.sortOfType(to)
	d.Fun("sarr_"+sanitize(es), []string{SStr}, ArraySort(SInt, es))
	arr := App("sarr_"+sanitize(es), ArraySort(SInt, es), s)
	n := c.strLen(s)
	// round trip axiom
	fn := "b2s_" + sanitize(es)
	d.Fun(fn, []string{ArraySort(SInt, es), SInt}, SStr)
	x := Sym("x!s", SStr)
	d.AddAxiom("b2s_s2b_"+sanitize(es), Forall([]*Term{x}, Eq(App(fn, SStr, App("sarr_"+sanitize(es), ArraySort(SInt, es), x), App("slen", SInt, x)), x), []*Term{App("sarr_"+sanitize(es), ArraySort(SInt, es), x)}))
	return mkSlice(srt, arr, n, n, False)
}

func (c *ExecCtx) evalBuiltin(st *State, name string, call *ast.CallExpr) []Val {
	u := c.u
	tm := u.eng.tm
	rt := c.typeOf(call)
	switch name {
	case "len":
		v := c.eval(st, call.Args[0])
		return []Val{{c.lenOf(st, v, call.Pos()), types.Typ[types.Int]}}
	case "cap":
		v := c.eval(st, call.Args[0])
		switch t := unalias(v.Ty).Underlying().(type) {
		case *types.Slice:
			return []Val{{slCap(v.T), types.Typ[types.Int]}}
		case *types.Array:
			return []Val{{IntLit(t.Len()), types.Typ[types.Int]}}
		case *types.Chan:
			return []Val{{Select(u.heapGet(st, "C.cap", ArraySort(SInt, SInt)), v.T), types.Typ[types.Int]}}
		}
		r := u.fresh("cap", SInt)
		st.assumeT(Ge(r, IntLit(0)))
		return []Val{{r, types.Typ[types.Int]}}
	case "append":
		s := c.eval(st, call.Args[0])
		slT, ok := unalias(rt).Underlying().(*types.Slice)
		if !ok {
			u.unsupportedf(call.Pos(), "append result type")
			return []Val{{u.fresh("app", c.sortOfType(rt)), rt}}
		}
		srt := c.sortOfType(rt)
		base := s.T
		if isNilVal(s) {
			base = tm.Zero(rt)
		}
		if call.Ellipsis != token.NoPos && len(call.Args) == 2 {
			t := c.eval(st, call.Args[1])
			var tl, tarr *Term
			if t.T.Sort == SStr {
				tb := c.strToBytes(st, t.T, slT, rt)
				tl, tarr = slLen(tb), slArr(tb)
			} else if isNilVal(t) {
				return []Val{{base, rt}}
			} else {
				tl, tarr = slLen(t.T), slArr(t.T)
			}
			na := u.fresh("apparr", ArraySort(SInt, c.sortOfType(slT.Elem())))
			i := Sym("i!a", SInt)
			n0 := u.define(st, "applen", slLen(base))
			st.assumeT(Forall([]*Term{i}, Eq(Select(na, i), Ite(Lt(i, n0), Select(slArr(base), i), Select(tarr, Sub(i, n0)))), []*Term{Select(na, i)}))
			nl := Add(n0, tl)
			nc := u.fresh("appcap", SInt)
			st.assumeT(Ge(nc, nl))
			r := mkSlice(srt, na, nl, nc, And(slNil(base), Eq(tl, IntLit(0))))
			c.noteAppend(st, call, r)
			return []Val{{u.define(st, "app", r), rt}}
		}
		arr := slArr(base)
		n := slLen(base)
		for k, a := range call.Args[1:] {
			v := c.convert(st, c.eval(st, a), slT.Elem())
			arr = Store(arr, Add(n, IntLit(int64(k))), v)
		}
		cnt := int64(len(call.Args) - 1)
		nl := Add(n, IntLit(cnt))
		nc := u.fresh("appcap", SInt)
		st.assumeT(Ge(nc, nl))
		isnil := False
		if cnt == 0 {
			isnil = slNil(base)
		}
		r := u.define(st, "app", mkSlice(srt, arr, nl, nc, isnil))
		c.noteAppend(st, call, r)
		return []Val{{r, rt}}
	case "make":
		switch t := unalias(rt).Underlying().(type) {
		case *types.Slice:
			n := c.eval(st, call.Args[1]).T
			cp := n
			if len(call.Args) > 2 {
				cp = c.eval(st, call.Args[2]).T
				if c.sweepOn() {
					u.oblige(st, "make", And(Ge(n, IntLit(0)), Le(n, cp)), call.Pos(), "make: 0 <= len <= cap")
				}
			} else if c.sweepOn() {
				u.oblige(st, "make", Ge(n, IntLit(0)), call.Pos(), "make: len >= 0")
			}
			es := c.sortOfType(t.Elem())
			return []Val{{u.define(st, "mk", mkSlice(c.sortOfType(rt), tm.constArray(es, tm.Zero(t.Elem())), n, cp, False)), rt}}
		case *types.Map:
			for _, a := range call.Args[1:] {
				c.eval(st, a)
			}
			ref := c.alloc(st, "map")
			hn, _, ln, ks, _ := c.mapHeaps(t)
			H := u.heapGet(st, hn, ArraySort(SInt, ArraySort(ks, SBool)))
			u.heapSet(st, hn, Store(H, ref, App("(as const "+ArraySort(ks, SBool)+")", ArraySort(ks, SBool), False)))
			L := u.heapGet(st, ln, ArraySort(SInt, SInt))
			u.heapSet(st, ln, Store(L, ref, IntLit(0)))
			return []Val{{ref, rt}}
		case *types.Chan:
			ref := c.alloc(st, "chan")
			cp := IntLit(0)
			if len(call.Args) > 1 {
				cp = c.eval(st, call.Args[1]).T
			}
			C := u.heapGet(st, "C.cap", ArraySort(SInt, SInt))
			u.heapSet(st, "C.cap", Store(C, ref, cp))
			CL := u.heapGet(st, "C.closed", ArraySort(SInt, SBool))
			u.heapSet(st, "C.closed", Store(CL, ref, False))
			return []Val{{ref, rt}}
		}
	case "new":
		pt := unalias(rt).Underlying().(*types.Pointer)
		ref := c.alloc(st, "new")
		c.storeThrough(st, ref, pt.Elem(), tm.Zero(pt.Elem()))
		return []Val{{ref, rt}}
	case "delete":
		m := c.eval(st, call.Args[0])
		mt := unalias(m.Ty).Underlying().(*types.Map)
		kv := c.eval(st, call.Args[1])
		k := c.convert(st, kv, mt.Key())
		// anchors `before call(delete)` / `call(delete)`: $arg0 map, $arg1 key
		c.runBeforeNamedCallAnchors(st, "delete", call, nil, []Val{m, {k, mt.Key()}})
		c.mapDelete(st, m, k)
		c.callArgs = []Val{m, {k, mt.Key()}}
		c.runNamedCallAnchors(st, "delete", call, nil)
		c.callArgs = nil
		return nil
	case "copy":
		dst := c.eval(st, call.Args[0])
		src := c.eval(st, call.Args[1])
		var sl, sarr *Term
		if src.T.Sort == SStr {
			b := c.strToBytes(st, src.T, unalias(dst.Ty).Underlying().(*types.Slice), dst.Ty)
			sl, sarr = slLen(b), slArr(b)
		} else {
			sl, sarr = slLen(src.T), slArr(src.T)
		}
		n := u.define(st, "copyn", Ite(Lt(slLen(dst.T), sl), slLen(dst.T), sl))
		na := u.fresh("copyarr", slArr(dst.T).Sort)
		i := Sym("i!c", SInt)
		st.assumeT(Forall([]*Term{i}, Eq(Select(na, i), Ite(And(Ge(i, IntLit(0)), Lt(i, n)), Select(sarr, i), Select(slArr(dst.T), i))), []*Term{Select(na, i)}))
		nd := mkSlice(dst.T.Sort, na, slLen(dst.T), slCap(dst.T), slNil(dst.T))
		c.writeBackSlice(st, call.Args[0], Val{nd, dst.Ty})
		return []Val{{n, types.Typ[types.Int]}}
	case "close":
		ch := c.eval(st, call.Args[0])
		c.closeChan(st, ch, call.Args[0], call.Pos())
		return nil
	case "panic":
		c.eval(st, call.Args[0])
		c.reachPanic(st, call.Pos(), "explicit panic")
		return nil
	case "min", "max":
		v := c.eval(st, call.Args[0])
		for _, a := range call.Args[1:] {
			w := c.eval(st, a)
			if v.T.Sort != SInt {
				v = Val{u.fresh("minmax", v.T.Sort), v.Ty}
				continue
			}
			if name == "min" {
				v = Val{Ite(Lt(w.T, v.T), w.T, v.T), v.Ty}
			} else {
				v = Val{Ite(Gt(w.T, v.T), w.T, v.T), v.Ty}
			}
		}
		return []Val{{u.define(st, name, v.T), rt}}
	case "clear":
		v := c.eval(st, call.Args[0])
		if mt, ok := unalias(v.Ty).Underlying().(*types.Map); ok {
			hn, _, ln, ks, _ := c.mapHeaps(mt)
			H := u.heapGet(st, hn, ArraySort(SInt, ArraySort(ks, SBool)))
			u.heapSet(st, hn, Store(H, v.T, App("(as const "+ArraySort(ks, SBool)+")", ArraySort(ks, SBool), False)))
			L := u.heapGet(st, ln, ArraySort(SInt, SInt))
			u.heapSet(st, ln, Store(L, v.T, IntLit(0)))
			return nil
		}
		u.unsupportedf(call.Pos(), "clear on %s", v.Ty)
		return nil
	case "print", "println":
		for _, a := range call.Args {
			c.eval(st, a)
		}
		return nil
	case "recover":
		return []Val{{IntLit(0), rt}}
	}
	u.unsupportedf(call.Pos(), "builtin %s", name)
	return []Val{{u.fresh(name, c.sortOfType(rt)), rt}}
}

// writeBackSlice stores a modified slice value back into the l-value it was
// taken from; for re-sliced destinations the underlying variable's contents
// become unknown (aliasing is not modelled).
func (c *ExecCtx) writeBackSlice(st *State, e ast.Expr, v Val) {
	switch x := ast.Unparen(e).(type) {
	case *ast.SliceExpr:
		base := c.eval(st, x.X)
		if _, ok := unalias(base.Ty).Underlying().(*types.Slice); ok {
			nb := mkSlice(base.T.Sort, c.u.fresh("aliased", slArr(base.T).Sort), slLen(base.T), slCap(base.T), slNil(base.T))
			c.writeBackSlice(st, x.X, Val{nb, base.Ty})
		}
	case *ast.Ident, *ast.SelectorExpr, *ast.IndexExpr:
		c.assignTo(st, x, v)
	}
}

func (c *ExecCtx) lenOf(st *State, v Val, pos token.Pos) *Term {
	u := c.u
	switch t := unalias(v.Ty).Underlying().(type) {
	case *types.Slice:
		return slLen(v.T)
	case *types.Array:
		return IntLit(t.Len())
	case *types.Basic:
		if t.Info()&types.IsString != 0 {
			return c.strLen(v.T)
		}
	case *types.Map:
		return c.mapLen(st, v)
	case *types.Pointer:
		if at, ok := unalias(t.Elem()).Underlying().(*types.Array); ok {
			return IntLit(at.Len())
		}
	case *types.Chan:
		r := u.fresh("chanlen", SInt)
		st.assumeT(Ge(r, IntLit(0)))
		return r
	}
	if isNilVal(v) {
		return IntLit(0)
	}
	u.unsupportedf(pos, "len of %s", v.Ty)
	r := u.fresh("len", SInt)
	st.assumeT(Ge(r, IntLit(0)))
	return r
}

// reachPanic records an obligation that this point is unreachable (unless the
// contract's panics_if covers it) and kills the state.
func (c *ExecCtx) reachPanic(st *State, pos token.Pos, what string) {
	u := c.u
	goal := False
	root := c
	for root.parent != nil {
		root = root.parent
	}
	if root.spec != nil && len(root.spec.PanicsIf) > 0 && root.oldState != nil {
		var alts []*Term
		for _, cl := range root.spec.PanicsIf {
			alts = append(alts, root.specBool(root.oldState, root.oldState, cl, pos, nil))
		}
		goal = Or(alts...)
	}
	if c.sweepOn() || c.depth == 0 {
		u.oblige(st, "unreachable", goal, pos, what+" must be unreachable")
	}
	st.dead = true
}

// ---------------------------------------------------------------------------

func funcKey(fn *types.Func) string {
	return fn.Origin().FullName()
}

func (c *ExecCtx) dispatch(st *State, fn *types.Func, recv *Val, args []Val, pos token.Pos, call *ast.CallExpr) []Val {
	u := c.u
	e := u.eng
	key := funcKey(fn)
	sig := fn.Type().(*types.Signature)
	if c.instSig != nil && (sig.TypeParams().Len() > 0 || sig.RecvTypeParams().Len() > 0) {
		sig = c.instSig
	}
	if recv != nil && !isInterface(recv.Ty) {
		if _, ok := unalias(recv.Ty).Underlying().(*types.Pointer); ok {
			c.nilCheckRecv(st, recv.T, pos, fn)
		}
	}
	// 1. contract
	if fs := e.specs.Funcs[key]; fs != nil {
		if fs.NoEffect {
			return c.freshResults(st, sig, fn, false)
		}
		if !(fs.Inline && e.funcs[fn.Origin()] != nil) {
			return c.applyContract(st, fs, fn, recv, args, pos)
		}
	}
	// 2. package-level modes
	if fn.Pkg() != nil {
		switch e.specs.PkgModes[fn.Pkg().Path()] {
		case "noeffect":
			return c.freshResults(st, sig, fn, false)
		case "pure":
			e.abstracted["pure-pkg:"+fn.Pkg().Path()] = true
			return c.freshResults(st, sig, fn, true)
		}
	}
	// 3. inline small module functions
	if fi := e.funcs[fn.Origin()]; fi != nil && fi.Decl.Body != nil {
		fs := e.specs.Funcs[key]
		forced := fs != nil && fs.Inline
		if forced || (c.depth < maxInlineDepth && !c.onInlineStack(fn) && countStmts(fi.Decl.Body) <= maxInlineStmts && fi.Decl.Type.TypeParams == nil && !hasRecvTypeParams(fi.Decl)) {
			return c.inlineFunc(st, fi, recv, args, pos)
		}
	}
	// 4. unknown: havoc
	return c.havocCall(st, fn, recv, args, sig, pos)
}

func (c *ExecCtx) isNoEffect(fn *types.Func) bool {
	e := c.u.eng
	if fs := e.specs.Funcs[funcKey(fn)]; fs != nil && fs.NoEffect {
		return true
	}
	return fn.Pkg() != nil && e.specs.PkgModes[fn.Pkg().Path()] == "noeffect"
}

func hasRecvTypeParams(fd *ast.FuncDecl) bool {
	if fd.Recv == nil || len(fd.Recv.List) == 0 {
		return false
	}
	t := fd.Recv.List[0].Type
	if s, ok := t.(*ast.StarExpr); ok {
		t = s.X
	}
	switch t.(type) {
	case *ast.IndexExpr, *ast.IndexListExpr:
		return true
	}
	return false
}

func (c *ExecCtx) nilCheckRecv(st *State, ref *Term, pos token.Pos, fn *types.Func) {
	// Calling a method on a nil pointer is legal; the dereference inside
	// would fail. Module methods under contract assume a non-nil receiver,
	// so require it here.
	if inModule(fn.Pkg()) {
		c.nilCheck(st, ref, pos, "receiver of "+fn.Name())
	}
}

func (c *ExecCtx) onInlineStack(fn *types.Func) bool {
	for _, f := range c.u.inlineStack {
		if f == fn.Origin() {
			return true
		}
	}
	return false
}

func countStmts(b *ast.BlockStmt) int {
	n := 0
	ast.Inspect(b, func(x ast.Node) bool {
		if _, ok := x.(ast.Stmt); ok {
			n++
		}
		return true
	})
	return n
}

// freshResults returns unconstrained results (with type facts).
// ctxDerive: convention of every dependency API (context.WithX, tracers,
// spans): a function that takes one context and returns a context returns one
// DERIVED from it - cancellation of the argument reaches the result.
// (ASSUMED; context.WithoutCancel is the documented exception.)
func (c *ExecCtx) ctxDerive(st *State, fn *types.Func, args []Val, res []Val) {
	if fn == nil || fn.Pkg() == nil || inModule(fn.Pkg()) || fn.FullName() == "context.WithoutCancel" {
		return
	}
	if len(res) == 0 || !isContextType(res[0].Ty) || res[0].T == nil || res[0].T.Sort != SInt {
		return
	}
	var ctxArg *Term
	n := 0
	for _, a := range args {
		if isContextType(a.Ty) && a.T != nil && a.T.Sort == SInt {
			ctxArg = a.T
			n++
		}
	}
	if n == 1 {
		c.u.eng.d.Fun("sf_ctxRoot", []string{SInt}, SInt)
		st.assumeT(Eq(App("sf_ctxRoot", SInt, res[0].T), App("sf_ctxRoot", SInt, ctxArg)))
		// ancestors of the result: those of the argument, and the argument
		as := ArraySort(SInt, SBool)
		c.u.eng.d.Fun("sf_ctxAnc", []string{SInt}, as)
		st.assumeT(Eq(App("sf_ctxAnc", as, res[0].T), Store(App("sf_ctxAnc", as, ctxArg), ctxArg, True)))
	}
}

func isContextType(t types.Type) bool {
	if t == nil {
		return false
	}
	n, ok := unalias(t).(*types.Named)
	return ok && n.Obj() != nil && n.Obj().Pkg() != nil && n.Obj().Pkg().Path() == "context" && n.Obj().Name() == "Context"
}

func (c *ExecCtx) freshResults(st *State, sig *types.Signature, fn *types.Func, _ bool) []Val {
	var out []Val
	for i := 0; i < sig.Results().Len(); i++ {
		rt := sig.Results().At(i).Type()
		name := "r"
		if fn != nil {
			name = "r_" + fn.Name()
		}
		t := c.u.fresh(name, c.sortOfType(rt))
		c.typeFacts(st, t, rt)
		c.resultNilFacts(st, t, rt, fn)
		out = append(out, Val{t, rt})
	}
	return out
}

// resultNilFacts assumes non-nil pointer results unless the callee may return nil.
func (c *ExecCtx) resultNilFacts(st *State, t *Term, rt types.Type, fn *types.Func) {
	if t.Sort != SInt {
		return
	}
	switch unalias(rt).Underlying().(type) {
	case *types.Signature:
		// func values returned by calls (cancel funcs, span enders, ...) are non-nil
		if fn != nil {
			st.assumeT(Ne(t, IntLit(0)))
		}
	case *types.Pointer, *types.Map:
		c.assumeAllocated(st, t)
		if fn == nil {
			return
		}
		e := c.u.eng
		if fs := e.specs.Funcs[funcKey(fn)]; fs != nil {
			if fs.MayNil {
				return
			}
			if fs.NonNilResult {
				st.assumeT(Ne(t, IntLit(0)))
			}
			return
		}
		// no spec: may be nil (sound default)
	}
}

func (c *ExecCtx) havocCall(st *State, fn *types.Func, recv *Val, args []Val, sig *types.Signature, pos token.Pos) []Val {
	u := c.u
	name := "dynamic"
	if fn != nil {
		name = funcKey(fn)
	}
	u.eng.abstracted["havoc:"+name] = true
	c.havocHeaps(st, fn, recv, args)
	c.growAlloc(st)
	return c.freshResults(st, sig, fn, false)
}

// havocHeaps forgets heap contents that an unknown callee may modify.
// External callees (dependencies) can only reach repository state through
// their arguments: if no argument is a func value, a module interface or a
// pointer into module types, module field heaps are kept.
func (c *ExecCtx) havocHeaps(st *State, fn *types.Func, recv *Val, args []Val) {
	u := c.u
	external := fn != nil && !inModule(fn.Pkg())
	if external {
		reach := false
		check := func(v Val) {
			if v.Ty == nil {
				return
			}
			if typeHasFunc(v.Ty, map[types.Type]bool{}) {
				reach = true
			}
		}
		if recv != nil {
			check(*recv)
		}
		for _, a := range args {
			check(a)
		}
		if !reach {
			// only cells of basic pointer/map/slice args may change
			for _, a := range args {
				c.havocArgContents(st, a)
			}
			return
		}
	}
	// map objects of the unit's function no callee can reach (confined.go)
	type keep struct {
		heap string
		ref  *Term
		val  *Term
	}
	var keeps []keep
	for _, r := range c.confinedRefs(st) {
		if mt, ok := unalias(r.Ty).Underlying().(*types.Map); ok {
			hn, vn, ln, ks, vs := c.mapHeaps(mt)
			for _, p := range [][2]string{{hn, ArraySort(SInt, ArraySort(ks, SBool))}, {vn, ArraySort(SInt, ArraySort(ks, vs))}, {ln, ArraySort(SInt, SInt)}} {
				keeps = append(keeps, keep{p[0], r.T, Select(u.heapGet(st, p[0], p[1]), r.T)})
			}
		}
	}
	defer func() {
		for _, k := range keeps {
			if cur, ok := st.heaps[k.heap]; ok {
				u.heapSet(st, k.heap, Store(cur, k.ref, k.val))
			}
		}
	}()
	// which heaps can the callee reach from its receiver and arguments?
	reach := newReach(u.eng.tm)
	reach.eng = u.eng
	if fn != nil || recv != nil || len(args) > 0 {
		if recv != nil {
			reach.add(recv.Ty)
		}
		for _, a := range args {
			reach.add(a.Ty)
		}
		if fn != nil {
			// results may alias anything reachable; globals of the callee's package
			reach.addPkgGlobals(fn.Pkg())
		}
	} else {
		reach.everything = true
	}
	if fn == nil {
		reach.everything = true
	}
	for h, cur := range u.initHeap {
		if _, ok := st.heaps[h]; !ok {
			st.heaps[h] = cur
		}
	}
	var calleePkg *types.Package
	if fn != nil {
		calleePkg = fn.Pkg()
	}
	for h, cur := range st.heaps {
		if !reach.everything && !reach.heap(h) {
			continue
		}
		// import-graph frame: code of package P cannot write fields of
		// struct types that P (transitively) cannot name
		if calleePkg != nil && !u.eng.canName(calleePkg, h) {
			continue
		}
		if h == "$alloc" {
			na := u.fresh("alloc", cur.Sort)
			x := Sym("x!a", SInt)
			st.assumeT(Forall([]*Term{x}, Imp(Select(cur, x), Select(na, x)), []*Term{Select(na, x)}))
			u.heapSet(st, h, na)
			continue
		}
		if strings.HasPrefix(h, "C.cap") {
			continue
		}
		if u.eng.tm.immutableHeaps[h] {
			continue // field written only by constructors (structural check)
		}
		if c.heapProtected(st, h) {
			continue
		}
		u.heapSet(st, h, u.fresh("hv_"+h, cur.Sort))
	}
	u.havocAll = true
}

// heapProtected: heaps declared guarded by a lock that is currently held are
// stable across unknown calls (nobody else can write them; the callee could
// only do so by re-acquiring the lock, which would deadlock).
func (c *ExecCtx) heapProtected(st *State, h string) bool {
	return false
}

func (c *ExecCtx) havocArgContents(st *State, a Val) {
	u := c.u
	if a.Ty == nil {
		return
	}
	switch t := unalias(a.Ty).Underlying().(type) {
	case *types.Map:
		hn, vn, ln, ks, vs := c.mapHeaps(t)
		for _, p := range [][2]string{{hn, ArraySort(SInt, ArraySort(ks, SBool))}, {vn, ArraySort(SInt, ArraySort(ks, vs))}, {ln, ArraySort(SInt, SInt)}} {
			h := u.heapGet(st, p[0], p[1])
			inner, _, _ := arrayParts(p[1])
			_ = inner
			_, vsort, _ := arrayParts(p[1])
			u.heapSet(st, p[0], Store(h, a.T, u.fresh("hvm", vsort)))
		}
	case *types.Pointer:
		if _, stt := structOf(t.Elem()); stt != nil {
			if u.eng.tm.isTransparentStruct(t.Elem()) {
				for i := 0; i < stt.NumFields(); i++ {
					hn := u.eng.tm.HeapName(t.Elem(), stt.Field(i).Name())
					fs := c.sortOfType(stt.Field(i).Type())
					h := u.heapGet(st, hn, ArraySort(SInt, fs))
					u.heapSet(st, hn, Store(h, a.T, u.fresh("hvf", fs)))
				}
			}
			return
		}
		hn, hs := c.cellHeap(t.Elem())
		h := u.heapGet(st, hn, hs)
		u.heapSet(st, hn, Store(h, a.T, u.fresh("hvc", c.sortOfType(t.Elem()))))
	}
}

// typeReachesModule: can a value of this type reach module-defined mutable
// state or run module code (func values, interfaces other than a few known
// inert ones)?
func typeReachesModule(t types.Type, seen map[types.Type]bool) bool {
	t = unalias(t)
	if seen[t] {
		return false
	}
	seen[t] = true
	if n, ok := t.(*types.Named); ok {
		if n.Obj() != nil && n.Obj().Pkg() != nil {
			p := n.Obj().Pkg().Path() + "." + n.Obj().Name()
			switch p {
			case "context.Context", "time.Time", "time.Duration":
				return false
			}
			if inModule(n.Obj().Pkg()) {
				switch n.Underlying().(type) {
				case *types.Basic:
					return false
				}
				return true
			}
		}
		if n.Obj() != nil && n.Obj().Pkg() == nil && n.Obj().Name() == "error" {
			return false
		}
	}
	switch u := t.Underlying().(type) {
	case *types.Basic:
		return false
	case *types.Pointer:
		return typeReachesModule(u.Elem(), seen)
	case *types.Slice:
		return typeReachesModule(u.Elem(), seen)
	case *types.Array:
		return typeReachesModule(u.Elem(), seen)
	case *types.Map:
		return typeReachesModule(u.Key(), seen) || typeReachesModule(u.Elem(), seen)
	case *types.Chan:
		return typeReachesModule(u.Elem(), seen)
	case *types.Struct:
		for i := 0; i < u.NumFields(); i++ {
			if typeReachesModule(u.Field(i).Type(), seen) {
				return true
			}
		}
		return false
	case *types.Signature:
		return true
	case *types.Interface:
		if n, ok := t.(*types.Named); ok && n.Obj() != nil && n.Obj().Pkg() != nil && !inModule(n.Obj().Pkg()) {
			// interface declared by a dependency: its implementation may be
			// module code only if the module passed one in; be conservative
			// for everything but well-known inert interfaces
			switch n.Obj().Pkg().Path() + "." + n.Obj().Name() {
			case "github.com/multiformats/go-multiaddr.Multiaddr", "github.com/libp2p/go-libp2p/core/crypto.PubKey", "github.com/libp2p/go-libp2p/core/crypto.PrivKey", "fmt.Stringer", "io.Reader", "io.Writer":
				return false
			}
		}
		return true
	case *types.TypeParam:
		return true
	}
	return false
}

func (c *ExecCtx) dynamicCall(st *State, fv Val, call *ast.CallExpr) []Val {
	u := c.u
	sig, ok := unalias(fv.Ty).Underlying().(*types.Signature)
	if !ok {
		u.unsupportedf(call.Pos(), "call of non-function %s", fv.Ty)
		return nil
	}
	args := c.evalArgs(st, call, sig, nil)
	if nm := calleeName(call); nm != "" {
		c.runBeforeNamedCallAnchors(st, nm, call, nil, args)
		defer func() {
			c.callArgs, c.callRecv = args, nil
			c.runNamedCallAnchors(st, nm, call, c.lastDynRes)
			c.callArgs = nil
		}()
	}
	res := c.dynamicCall2(st, fv, sig, args, call)
	c.lastDynRes = res
	return res
}

func (c *ExecCtx) dynamicCall2(st *State, fv Val, sig *types.Signature, args []Val, call *ast.CallExpr) []Val {
	u := c.u
	if fv.T.Op == "sym" {
		if cl, ok := st.funcLits[fv.T.Name]; ok && c.depth < maxInlineDepth+2 {
			return c.inlineLit(st, cl, args, call.Pos())
		}
	}
	if c.sweepOn() && fv.T.Sort == SInt && !(fv.T.Op == "sym" && u.captured[fv.T.Name]) {
		u.oblige(st, "fncall", Ne(fv.T, IntLit(0)), call.Pos(), "call of nil func value")
	}
	// role contract for func-typed parameters/fields?
	if name := calleeName(call); name != "" {
		root := c
		for root.spec == nil && root.parent != nil {
			root = root.parent
		}
		if root.spec != nil {
			if rs := u.eng.specs.Funcs[strings.SplitN(root.spec.Key, "$lit", 2)[0]+"$role:"+name]; rs != nil {
				return c.applyRole(st, rs, sig, args, call.Pos())
			}
		}
	}
	if n, ok := unalias(fv.Ty).(*types.Named); ok && n.Obj() != nil && !inModule(n.Obj().Pkg()) {
		// func type defined by a dependency (context.CancelFunc, ...): the
		// value comes from there; it cannot touch repository state
		u.eng.abstracted["extfunc:"+n.Obj().Name()] = true
		for _, a := range args {
			c.havocArgContents(st, a)
		}
		return c.freshResults(st, sig, nil, false)
	}
	return c.havocCall(st, nil, nil, args, sig, call.Pos())
}

func calleeName(call *ast.CallExpr) string {
	switch f := ast.Unparen(call.Fun).(type) {
	case *ast.Ident:
		return f.Name
	case *ast.SelectorExpr:
		return f.Sel.Name
	}
	return ""
}

// inlineFunc executes the callee's body in the caller's state.
func (c *ExecCtx) inlineFunc(st *State, fi *FuncInfo, recv *Val, args []Val, pos token.Pos) []Val {
	u := c.u
	sub := &ExecCtx{u: u, info: fi.Pkg.TypesInfo, pkg: fi.Pkg, fn: fi, depth: c.depth + 1, parent: c, oldState: c.oldState, inlinedFunc: true}
	sig := fi.Obj.Type().(*types.Signature)
	// bind receiver and params
	if fi.Decl.Recv != nil && len(fi.Decl.Recv.List) > 0 && len(fi.Decl.Recv.List[0].Names) > 0 && recv != nil {
		if obj := sub.info.Defs[fi.Decl.Recv.List[0].Names[0]]; obj != nil {
			st.vars[obj] = recv.T
		}
	}
	i := 0
	for _, f := range fi.Decl.Type.Params.List {
		if len(f.Names) == 0 {
			i++
			continue
		}
		for _, n := range f.Names {
			if obj := sub.info.Defs[n]; obj != nil && i < len(args) {
				st.vars[obj] = args[i].T
			}
			i++
		}
	}
	sub.setupResults(st, fi.Decl.Type, sig)
	u.inlineStack = append(u.inlineStack, fi.Obj)
	defer func() { u.inlineStack = u.inlineStack[:len(u.inlineStack)-1] }()
	return sub.runBodyInline(st, fi.Decl.Body, sig, pos)
}

func (c *ExecCtx) inlineLit(st *State, cl *closure, args []Val, pos token.Pos) []Val {
	u := c.u
	sub := &ExecCtx{u: u, info: cl.info, pkg: cl.pkg, lit: cl.lit, depth: c.depth + 1, parent: c, oldState: c.oldState, fn: c.fn}
	sig := cl.info.TypeOf(cl.lit).(*types.Signature)
	i := 0
	for _, f := range cl.lit.Type.Params.List {
		if len(f.Names) == 0 {
			i++
			continue
		}
		for _, n := range f.Names {
			if obj := sub.info.Defs[n]; obj != nil && i < len(args) {
				st.vars[obj] = args[i].T
			}
			i++
		}
	}
	sub.setupResults(st, cl.lit.Type, sig)
	return sub.runBodyInline(st, cl.lit.Body, sig, pos)
}

// setupResults creates result variables (named or synthetic).
func (c *ExecCtx) setupResults(st *State, ft *ast.FuncType, sig *types.Signature) {
	c.results = nil
	if ft.Results != nil {
		for _, f := range ft.Results.List {
			for _, n := range f.Names {
				if obj, ok := c.info.Defs[n].(*types.Var); ok && obj != nil {
					c.results = append(c.results, obj)
					st.vars[obj] = c.u.eng.tm.Zero(obj.Type())
				}
			}
		}
	}
	if len(c.results) == 0 {
		for i := 0; i < sig.Results().Len(); i++ {
			v := types.NewVar(token.NoPos, nil, fmt.Sprintf("$res%d", i), sig.Results().At(i).Type())
			c.results = append(c.results, v)
		}
	}
}

// runBodyInline runs a body to completion (returns + defers) and merges the
// outcome back into st.
func (c *ExecCtx) runBodyInline(st *State, body *ast.BlockStmt, sig *types.Signature, pos token.Pos) []Val {
	u := c.u
	base := len(st.assume)
	savedDefers := st.defers
	savedResults := st.results
	start := st.fork()
	start.defers = nil
	outs := c.execBlock([]*State{start}, body.List)
	for _, o := range outs {
		if !o.dead {
			// fell off the end
			o.results = nil
			for _, r := range c.results {
				if r.Pkg() != nil || len(c.results) > 0 && r.Name()[0] != '$' {
					o.results = append(o.results, c.readVar(o, r))
				}
			}
			c.returns = append(c.returns, o)
		}
	}
	var finals []*State
	for _, r := range c.returns {
		finals = append(finals, c.runDefers(r)...)
	}
	nres := sig.Results().Len()
	// merge: make result values uniform first
	resSyms := make([]*Term, nres)
	for i := 0; i < nres; i++ {
		resSyms[i] = u.fresh("ret", c.sortOfType(sig.Results().At(i).Type()))
	}
	var live []*State
	for _, f := range finals {
		if f.dead {
			continue
		}
		for i := 0; i < nres; i++ {
			var t *Term
			if c.hasNamedResults() {
				t = c.readVar(f, c.results[i]).T
			} else if i < len(f.results) {
				t = f.results[i].T
			}
			if t != nil {
				f.assume = append(f.assume, Eq(resSyms[i], t))
			}
		}
		f.defers = savedDefers
		f.results = savedResults
		live = append(live, f)
	}
	if len(live) == 0 {
		st.dead = true
		return c.zeroResults(sig)
	}
	m := u.mergeStates(base, live)
	if m == nil {
		u.unsupportedf(pos, "cannot merge inlined call states")
		m = live[0]
	}
	st.become(m)
	var out []Val
	for i := 0; i < nres; i++ {
		out = append(out, Val{resSyms[i], sig.Results().At(i).Type()})
	}
	return out
}

func (c *ExecCtx) hasNamedResults() bool {
	return len(c.results) > 0 && c.results[0].Name() != "" && c.results[0].Name()[0] != '$'
}

func (c *ExecCtx) zeroResults(sig *types.Signature) []Val {
	var out []Val
	for i := 0; i < sig.Results().Len(); i++ {
		rt := sig.Results().At(i).Type()
		out = append(out, Val{c.u.eng.tm.Zero(rt), rt})
	}
	return out
}

// ---------------------------------------------------------------------------
// contract application at a call site

func (c *ExecCtx) applyContract(st *State, fs *FuncSpec, fn *types.Func, recv *Val, args []Val, pos token.Pos) []Val {
	u := c.u
	if fs.Trusted {
		u.eng.externUsed[fs.Key] = true
	}
	var sig *types.Signature
	if fn != nil {
		sig = fn.Type().(*types.Signature)
		if c.instSig != nil && (sig.TypeParams().Len() > 0 || sig.RecvTypeParams().Len() > 0) {
			sig = c.instSig
		}
	}
	binds := c.bindHeader(fs, recv, args)
	env := &SpecEnv{c: c, fs: fs, binds: binds, fnObj: fn}
	pre := st.fork() // snapshot for old()
	// requires
	for _, cl := range fs.Requires {
		t := env.evalBool(st, pre, cl.Expr, cl.Where)
		u.oblige(st, "pre", t, pos, fmt.Sprintf("precondition of %s: %s", shortKey(fs.Key), cl.Src))
	}
	for _, cl := range fs.PanicsIf {
		t := env.evalBool(st, pre, cl.Expr, cl.Where)
		u.oblige(st, "pre", Not(t), pos, fmt.Sprintf("%s panics if: %s", shortKey(fs.Key), cl.Src))
	}
	for _, raw := range fs.Extra["holds"] {
		if c.exemptFromGuards() {
			// constructors run before the object is published: the lock
			// discipline does not apply yet (same exemption as guarded_by)
			break
		}
		if ex, err := parseSpecExpr(raw); err == nil {
			k, idx := env.specLockKey(st, pre, ex)
			held, cond, mode := c.lockHeldFor(st, k)
			ok := held && mode == 1
			if ok && idx != nil {
				if hi, has := st.lockIdx[k]; has {
					u.oblige(st, "lock", Eq(hi, idx), pos, "caller holds "+raw+" (index) when calling "+shortKey(fs.Key))
				} else {
					ok = false
				}
			}
			if ok && cond != nil {
				u.oblige(st, "lock", cond, pos, "caller holds "+raw+" when calling "+shortKey(fs.Key))
			} else {
				u.obligeStatic(st, "lock", ok, pos, "caller holds "+raw+" when calling "+shortKey(fs.Key))
			}
		}
	}
	// lets (evaluated in pre-state)
	for _, cl := range fs.Lets {
		v := env.eval(st, pre, cl.Expr)
		binds[cl.Label] = v
	}
	// deterministic function: result is an uninterpreted application
	var results []Val
	if sig != nil && fs.Func && sig.Results().Len() == 1 {
		rt := sig.Results().At(0).Type()
		results = []Val{{c.funcApp(fn, recv, args, rt), rt}}
		c.typeFacts(st, results[0].T, rt)
	}
	// frame
	if !fs.Pure && !fs.Func {
		if fs.HasModifies && !fs.ModifiesAll {
			for _, m := range fs.Modifies {
				env.havocTarget(st, m.Expr, m.Where)
			}
		} else if fs.Trusted && !fs.ModifiesAll && !fs.HasModifies {
			c.havocHeaps(st, fn, recv, args)
		} else {
			c.havocHeaps(st, nil, recv, args)
		}
	}
	// the callee may have allocated: the allocation set grows BEFORE results
	// are introduced, so that "result is allocated" refers to the post-state
	// (a result may be a fresh object: fresh(result) in ensures)
	if !fs.Func {
		al := u.heapGet(st, "$alloc", ArraySort(SInt, SBool))
		na := u.fresh("alloc", al.Sort)
		x := Sym("x!a", SInt)
		st.assumeT(Forall([]*Term{x}, Imp(Select(al, x), Select(na, x)), []*Term{Select(na, x)}))
		u.heapSet(st, "$alloc", na)
	}
	if results == nil && sig != nil {
		results = c.freshResults(st, sig, fn, false)
	}
	// bind results
	env.bindResults(results)
	for _, cl := range fs.Ensures {
		if strings.HasPrefix(cl.Label, "internal") || mentionsGhostVar(fs, cl.Expr) || mentionsUnitLocal(cl.Expr) {
			continue // refers to ghost state of the callee's own verification
		}
		env.assuming = true
		t := env.evalBool(st, pre, cl.Expr, cl.Where)
		env.assuming = false
		st.assumeT(t)
	}
	return results
}

func shortKey(k string) string {
	k = strings.ReplaceAll(k, modulePath+"/", "")
	k = strings.ReplaceAll(k, modulePath, "dht")
	return k
}

// funcApp builds fn(args) as an uninterpreted application.
func (c *ExecCtx) funcApp(fn *types.Func, recv *Val, args []Val, rt types.Type) *Term {
	d := c.u.eng.d
	name := "fn_" + sanitize(shortKey(funcKey(fn)))
	var sorts []string
	var ts []*Term
	if recv != nil {
		sorts = append(sorts, recv.T.Sort)
		ts = append(ts, recv.T)
	}
	for _, a := range args {
		sorts = append(sorts, a.T.Sort)
		ts = append(ts, a.T)
	}
	rs := c.sortOfType(rt)
	if len(ts) == 0 {
		return d.Const(name, rs)
	}
	d.Fun(name, sorts, rs)
	c.installFuncAxioms(fn, name, recv, args, rt)
	return App(name, rs, ts...)
}

// installFuncAxioms turns the ensures clauses of a `function` contract into a
// universally quantified axiom about the uninterpreted function, so that the
// facts are available wherever the function is mentioned (also in specs).
func (c *ExecCtx) installFuncAxioms(fn *types.Func, name string, recv *Val, args []Val, rt types.Type) {
	e := c.u.eng
	if e.funcAxiomDone == nil {
		e.funcAxiomDone = map[string]bool{}
	}
	if e.funcAxiomDone[name] {
		return
	}
	e.funcAxiomDone[name] = true
	fs := e.specs.Funcs[funcKey(fn)]
	if fs == nil || !fs.Func || len(fs.Ensures) == 0 {
		return
	}
	u := c.u
	var qv []*Term
	var ts []*Term
	var recvQ *Val
	mk := func(v Val, nm string) Val {
		e.nsym++
		q := Sym(fmt.Sprintf("%s!fa%d", nm, e.nsym), v.T.Sort)
		qv = append(qv, q)
		ts = append(ts, q)
		return Val{q, v.Ty}
	}
	if recv != nil {
		r := mk(*recv, "recv")
		recvQ = &r
	}
	var argQ []Val
	for i, a := range args {
		argQ = append(argQ, mk(a, fmt.Sprintf("a%d", i)))
	}
	rs := c.sortOfType(rt)
	app := App(name, rs, ts...)
	binds := c.bindHeader(fs, recvQ, argQ)
	env := &SpecEnv{c: c, fs: fs, binds: binds, fnObj: fn}
	env.bindResults([]Val{{app, rt}})
	scratch := newState()
	u.quiet++
	var ens []*Term
	for _, cl := range fs.Ensures {
		ens = append(ens, env.evalBool(scratch, scratch, cl.Expr, cl.Where))
	}
	u.quiet--
	body := And(ens...)
	if len(scratch.assume) > 0 {
		body = Imp(And(scratch.assume...), body)
	}
	e.d.AddAxiom("fnax_"+name, Forall(qv, body, []*Term{app}))
	e.axiomNames = append(e.axiomNames, "function contract as axiom: "+shortKey(funcKey(fn)))
}

// bindHeader binds the contract header's names positionally.
func (c *ExecCtx) bindHeader(fs *FuncSpec, recv *Val, args []Val) map[string]Val {
	binds := map[string]Val{}
	h := fs.Header
	if h == nil {
		return binds
	}
	if h.Recv != nil && len(h.Recv.List) > 0 && len(h.Recv.List[0].Names) > 0 && recv != nil {
		binds[h.Recv.List[0].Names[0].Name] = *recv
	}
	i := 0
	if h.Type.Params != nil {
		for _, f := range h.Type.Params.List {
			if len(f.Names) == 0 {
				i++
				continue
			}
			for _, n := range f.Names {
				if i < len(args) {
					binds[n.Name] = args[i]
				}
				i++
			}
		}
	}
	return binds
}


// sortSort models sort.Sort(data) through the CONTRACTS of data's Len, Less
// and Swap methods: afterwards the slice fields Swap may modify hold a
// permutation (skolem functions pi/inv) of their old contents, and for all
// i<j, Less(j,i) is false. Assumption (stdlib): sort.Sort only calls
// Len/Less/Swap with in-range indices and terminates sorted.
func (c *ExecCtx) sortSort(st *State, call *ast.CallExpr) bool {
	u := c.u
	e := u.eng
	data := c.eval(st, call.Args[0])
	find := func(name string) (*types.Func, *FuncSpec) {
		obj, _, _ := types.LookupFieldOrMethod(data.Ty, true, c.pkg.Types, name)
		fn, ok := obj.(*types.Func)
		if !ok {
			return nil, nil
		}
		return fn, e.specs.Funcs[funcKey(fn)]
	}
	lenFn, lenSpec := find("Len")
	lessFn, lessSpec := find("Less")
	swapFn, swapSpec := find("Swap")
	if lenSpec == nil || lessSpec == nil || swapSpec == nil || !swapSpec.HasModifies {
		return false
	}
	e.externUsed["sort.Sort (permutation + sortedness via Len/Less/Swap contracts)"] = true
	n := c.applyContract(st, lenSpec, lenFn, &data, nil, call.Pos())[0].T
	n = u.define(st, "sortn", n)
	// Less/Swap preconditions for every in-range pair (checked in the
	// pre-sort state; they must be permutation-invariant: listed assumption)
	{
		a0, b0 := u.fresh("sa", SInt), u.fresh("sb", SInt)
		ps := st.fork()
		ps.assumeT(And(Ge(a0, IntLit(0)), Lt(a0, n), Ge(b0, IntLit(0)), Lt(b0, n)))
		for _, sp := range []struct {
			fs *FuncSpec
			fn *types.Func
		}{{lessSpec, lessFn}, {swapSpec, swapFn}} {
			pb := c.bindHeader(sp.fs, &data, []Val{{a0, types.Typ[types.Int]}, {b0, types.Typ[types.Int]}})
			penv := &SpecEnv{c: c, fs: sp.fs, binds: pb, fnObj: sp.fn}
			for _, cl := range sp.fs.Requires {
				u.oblige(ps, "pre", penv.evalBool(ps, ps, cl.Expr, cl.Where), call.Pos(), "sort.Sort: precondition of "+sp.fn.Name()+" for all in-range pairs: "+cl.Src)
			}
		}
	}
	e.nsym++
	pi := fmt.Sprintf("sortpi@%d", e.nsym)
	inv := fmt.Sprintf("sortinv@%d", e.nsym)
	e.d.Fun(pi, []string{SInt}, SInt)
	e.d.Fun(inv, []string{SInt}, SInt)
	u.lastSortPi, u.lastSortInv = pi, inv
	i := Sym("i!p", SInt)
	inr := func(x *Term) *Term { return And(Ge(x, IntLit(0)), Lt(x, n)) }
	st.assumeT(Forall([]*Term{i}, Imp(inr(i), And(inr(App(pi, SInt, i)), Eq(App(inv, SInt, App(pi, SInt, i)), i))), []*Term{App(pi, SInt, i)}))
	st.assumeT(Forall([]*Term{i}, Imp(inr(i), And(inr(App(inv, SInt, i)), Eq(App(pi, SInt, App(inv, SInt, i)), i))), []*Term{App(inv, SInt, i)}))
	// permute the slice fields Swap modifies
	binds := c.bindHeader(swapSpec, &data, []Val{{IntLit(0), types.Typ[types.Int]}, {IntLit(0), types.Typ[types.Int]}})
	env := &SpecEnv{c: c, fs: swapSpec, binds: binds, fnObj: swapFn}
	for _, m := range swapSpec.Modifies {
		sel, ok := m.Expr.(*ast.SelectorExpr)
		if !ok {
			u.unsupportedf(call.Pos(), "sort.Sort: Swap modifies %s", m.Src)
			return false
		}
		base := env.eval(st, st, sel.X)
		obj, _, _ := types.LookupFieldOrMethod(base.Ty, true, env.anyPkg(base.Ty), sel.Sel.Name)
		f, ok := obj.(*types.Var)
		if !ok {
			return false
		}
		if _, isSl := unalias(f.Type()).Underlying().(*types.Slice); !isSl {
			u.unsupportedf(call.Pos(), "sort.Sort: Swap modifies non-slice field %s", m.Src)
			return false
		}
		st0 := derefType(base.Ty)
		hn := e.tm.HeapName(st0, f.Name())
		fs := c.sortOfType(f.Type())
		h := u.heapGet(st, hn, ArraySort(SInt, fs))
		oldS := u.define(st, "sortold", Select(h, base.T))
		na := u.fresh("sortarr", slArr(oldS).Sort)
		st.assumeT(Forall([]*Term{i}, Imp(inr(i), Eq(Select(na, i), Select(slArr(oldS), App(pi, SInt, i)))), []*Term{Select(na, i)}))
		st.assumeT(Forall([]*Term{i}, Imp(Not(inr(i)), Eq(Select(na, i), Select(slArr(oldS), i))), []*Term{Select(na, i)}))
		u.heapSet(st, hn, Store(h, base.T, mkSlice(fs, na, slLen(oldS), slCap(oldS), slNil(oldS))))
	}
	// sortedness through Less's postcondition
	a, b := Sym("a!s", SInt), Sym("b!s", SInt)
	r := True
	lb := c.bindHeader(lessSpec, &data, []Val{{b, types.Typ[types.Int]}, {a, types.Typ[types.Int]}})
	lenv := &SpecEnv{c: c, fs: lessSpec, binds: lb, fnObj: lessFn}
	lenv.bindResults([]Val{{r, types.Typ[types.Bool]}})
	var ens []*Term
	for _, cl := range lessSpec.Ensures {
		ens = append(ens, lenv.evalBool(st, st, cl.Expr, cl.Where))
	}
	// Less(b,a) is false: its postcondition with result=true cannot hold
	st.assumeT(Forall([]*Term{a, b}, Imp(And(Ge(a, IntLit(0)), Lt(a, b), Lt(b, n)), Not(And(ens...)))))
	return true
}


// applyRole applies the contract of a func-typed parameter (assumed: the
// caller of the function under contract is responsible for it).
func (c *ExecCtx) applyRole(st *State, fs *FuncSpec, sig *types.Signature, args []Val, pos token.Pos) []Val {
	u := c.u
	u.eng.externUsed["role contract (assumed): "+shortKey(fs.Key)] = true
	binds := c.bindHeader(fs, nil, args)
	env := c.newEnv(binds, pos) // captured variables of the enclosing function are visible
	env.fs = fs
	pre := st.fork()
	for _, cl := range fs.Requires {
		t := env.evalBool(st, pre, cl.Expr, cl.Where)
		u.oblige(st, "pre", t, pos, fmt.Sprintf("precondition of %s: %s", shortKey(fs.Key), cl.Src))
	}
	if !fs.Pure {
		if fs.HasModifies && !fs.ModifiesAll {
			for _, m := range fs.Modifies {
				env.havocTarget(st, m.Expr, m.Where)
			}
		} else {
			c.havocHeaps(st, nil, nil, args)
		}
	}
	results := c.freshResults(st, sig, nil, false)
	env.bindResults(results)
	env.assuming = true
	for _, cl := range fs.Ensures {
		st.assumeT(env.evalBool(st, pre, cl.Expr, cl.Where))
	}
	return results
}


func (c *ExecCtx) typeOfArg0(call *ast.CallExpr) types.Type {
	if len(call.Args) == 0 {
		return types.Typ[types.Invalid]
	}
	return c.typeOf(call.Args[0])
}


// typeHasFunc: does a value of this type (shallowly: through slices, arrays,
// maps, pointers and struct fields) carry a func value that a dependency
// could call back into repository code with?
func typeHasFunc(t types.Type, seen map[types.Type]bool) bool {
	t = unalias(t)
	if seen[t] {
		return false
	}
	seen[t] = true
	if n, ok := t.(*types.Named); ok && n.Obj() != nil && n.Obj().Pkg() != nil && !inModule(n.Obj().Pkg()) {
		// values of dependency-defined named types do not hold repository closures
		// unless they are plain func types
		if _, isSig := n.Underlying().(*types.Signature); !isSig {
			return false
		}
	}
	switch u := t.Underlying().(type) {
	case *types.Signature:
		return true
	case *types.Pointer:
		return typeHasFunc(u.Elem(), seen)
	case *types.Slice:
		return typeHasFunc(u.Elem(), seen)
	case *types.Array:
		return typeHasFunc(u.Elem(), seen)
	case *types.Map:
		return typeHasFunc(u.Elem(), seen)
	case *types.Struct:
		for i := 0; i < u.NumFields(); i++ {
			if typeHasFunc(u.Field(i).Type(), seen) {
				return true
			}
		}
	}
	return false
}


// reachSet: the field heaps / map heaps / cell heaps reachable from a set of
// types (transitively through fields, elements and pointers). Func values
// and repository-defined interfaces reach everything.
type reachSet struct {
	eng        *Engine
	tm         *TypeMap
	everything bool
	heaps      map[string]bool // exact heap names
	prefixes   map[string]bool // "H.<struct>." prefixes
	seen       map[string]bool
}

func newReach(tm *TypeMap) *reachSet {
	return &reachSet{tm: tm, heaps: map[string]bool{"$alloc": true}, prefixes: map[string]bool{}, seen: map[string]bool{}}
}

func (r *reachSet) heap(h string) bool {
	if r.heaps[h] {
		return true
	}
	if strings.HasPrefix(h, "G.") || strings.HasPrefix(h, "C.") {
		return true
	}
	for p := range r.prefixes {
		if strings.HasPrefix(h, p) {
			return true
		}
	}
	return false
}

func (r *reachSet) addPkgGlobals(p *types.Package) {
	if p == nil || !inModule(p) {
		return
	}
	for _, n := range p.Scope().Names() {
		if v, ok := p.Scope().Lookup(n).(*types.Var); ok {
			r.add(v.Type())
		}
	}
}

func (r *reachSet) add(t types.Type) {
	if t == nil || r.everything {
		return
	}
	t = unalias(t)
	k := typeKey(t)
	if r.seen[k] {
		return
	}
	r.seen[k] = true
	if n, ok := t.(*types.Named); ok && n.Obj() != nil {
		if n.Obj().Pkg() == nil {
			return // error
		}
		if !inModule(n.Obj().Pkg()) {
			// dependency-defined type: opaque, does not reach repository
			// structs; but exported fields of transparent structs do
			if st, ok := n.Underlying().(*types.Struct); ok && structIsTransparent(n, st) {
				r.prefixes["H."+r.tm.canonStruct(n, st)+"."] = true
				for i := 0; i < st.NumFields(); i++ {
					r.add(st.Field(i).Type())
				}
			}
			if _, ok := n.Underlying().(*types.Signature); ok {
				return
			}
			switch n.Underlying().(type) {
			case *types.Slice, *types.Map, *types.Pointer, *types.Array:
			default:
				return
			}
		}
	}
	switch u := t.Underlying().(type) {
	case *types.Basic:
	case *types.Pointer:
		if _, st := structOf(u.Elem()); st == nil {
			srt := r.tm.SortOf(u.Elem())
			r.heaps["P."+sanitize(srt)] = true
		}
		r.add(u.Elem())
	case *types.Slice:
		r.add(u.Elem())
	case *types.Array:
		r.add(u.Elem())
	case *types.Chan:
		r.add(u.Elem())
	case *types.Map:
		base := r.tm.mapHeapBase(u)
		r.heaps[base+".has"], r.heaps[base+".val"], r.heaps[base+".len"] = true, true, true
		r.add(u.Key())
		r.add(u.Elem())
	case *types.Struct:
		if n, ok := t.(*types.Named); ok {
			r.prefixes["H."+r.tm.canonStruct(n, u)+"."] = true
			r.prefixes["HG."+shortTypeName(n)+"."] = true
		}
		for i := 0; i < u.NumFields(); i++ {
			r.add(u.Field(i).Type())
		}
	case *types.Signature:
		r.everything = true
	case *types.Interface:
		if n, ok := t.(*types.Named); ok && n.Obj() != nil && n.Obj().Pkg() != nil && inModule(n.Obj().Pkg()) {
			// repository-defined interface: the dynamic type is one of the
			// repository types implementing it, or user code that holds no
			// reference to repository internals (listed assumption)
			if r.eng == nil || u.NumMethods() == 0 {
				r.everything = true
				break
			}
			for _, impl := range r.eng.implementers(u) {
				r.add(impl)
			}
		}
		if _, ok := t.(*types.Named); !ok && u.NumMethods() > 0 {
			r.everything = true
		}
	case *types.TypeParam:
		r.everything = true
	}
}


// implementers lists the repository named types (as pointer types) whose
// method set implements iface.
func (e *Engine) implementers(iface *types.Interface) []types.Type {
	key := iface.String()
	if v, ok := e.implCache[key]; ok {
		return v
	}
	var out []types.Type
	for _, p := range e.pkgs {
		sc := p.Types.Scope()
		for _, n := range sc.Names() {
			tn, ok := sc.Lookup(n).(*types.TypeName)
			if !ok || tn.IsAlias() {
				continue
			}
			named, ok := tn.Type().(*types.Named)
			if !ok || named.TypeParams().Len() > 0 {
				continue
			}
			if _, isIface := named.Underlying().(*types.Interface); isIface {
				continue
			}
			pt := types.NewPointer(named)
			if types.Implements(pt, iface) || types.Implements(named, iface) {
				out = append(out, pt)
			}
		}
	}
	if e.implCache == nil {
		e.implCache = map[string][]types.Type{}
	}
	e.implCache[key] = out
	return out
}


// canName: can code in package p name the struct type (or global) that heap h
// belongs to? Stored callbacks are not considered (listed assumption).
func (e *Engine) canName(p *types.Package, h string) bool {
	var owner *types.Package
	switch {
	case strings.HasPrefix(h, "H.") || strings.HasPrefix(h, "HG."):
		i := strings.LastIndex(h, ".")
		owner = e.tm.heapPkg[h[:i+1]]
	case strings.HasPrefix(h, "G."):
		// G.<sanitized path>.<name>: compare against closure by sanitized path
		for q := range e.importClosure(p) {
			if strings.HasPrefix(h, "G."+sanitize(q.Path())+".") {
				return true
			}
		}
		return false
	default:
		return true
	}
	if owner == nil {
		return true
	}
	return e.importClosure(p)[owner]
}

func (e *Engine) importClosure(p *types.Package) map[*types.Package]bool {
	if e.impClosure == nil {
		e.impClosure = map[*types.Package]map[*types.Package]bool{}
	}
	if c, ok := e.impClosure[p]; ok {
		return c
	}
	c := map[*types.Package]bool{}
	var walk func(q *types.Package)
	walk = func(q *types.Package) {
		if c[q] {
			return
		}
		c[q] = true
		for _, i := range q.Imports() {
			walk(i)
		}
	}
	walk(p)
	e.impClosure[p] = c
	return c
}


// mentionsGhostVar: does the clause mention one of the contract's own ghost
// variables (which exist only while the callee itself is being verified)?
// mentionsUnitLocal: tagged(), held(), heldw() and wgcount() speak about the
// execution of the unit they are proved in; they mean nothing in a caller's
// state (assuming them there would assume `false`).
func mentionsUnitLocal(e ast.Expr) bool {
	found := false
	ast.Inspect(e, func(n ast.Node) bool {
		if ce, ok := n.(*ast.CallExpr); ok {
			if id, ok := ce.Fun.(*ast.Ident); ok {
				switch id.Name {
				case "tagged", "held", "heldw", "wgcount":
					found = true
				}
			}
		}
		return !found
	})
	return found
}

func mentionsGhostVar(fs *FuncSpec, e ast.Expr) bool {
	if len(fs.Extra["ghostvar"]) == 0 {
		return false
	}
	names := map[string]bool{}
	for _, raw := range fs.Extra["ghostvar"] {
		f := strings.Fields(raw)
		if len(f) > 0 {
			names[dollar(f[0])] = true
		}
	}
	// identifiers in selector position (x.$f) are ghost FIELDS, not variables
	sels := map[*ast.Ident]bool{}
	ast.Inspect(e, func(n ast.Node) bool {
		if se, ok := n.(*ast.SelectorExpr); ok {
			sels[se.Sel] = true
		}
		return true
	})
	found := false
	ast.Inspect(e, func(n ast.Node) bool {
		if id, ok := n.(*ast.Ident); ok && names[id.Name] && !sels[id] {
			found = true
		}
		return !found
	})
	return found
}


// growAlloc: an unknown callee may have allocated objects.
func (c *ExecCtx) growAlloc(st *State) {
	u := c.u
	al := u.heapGet(st, "$alloc", ArraySort(SInt, SBool))
	if al.Op == "sym" && strings.HasPrefix(al.Name, "alloc@") && len(st.assume) > 0 {
		// already a grown set not yet used for an allocation: fine to reuse
	}
	na := u.fresh("alloc", al.Sort)
	x := Sym("x!a", SInt)
	st.assumeT(Forall([]*Term{x}, Imp(Select(al, x), Select(na, x)), []*Term{Select(na, x)}))
	u.heapSet(st, "$alloc", na)
}
