package main

// SMT term layer: a small s-expression AST with smart constructors and a
// printer. Sorts are plain strings in SMT-LIB syntax.

import (
	"fmt"
	"strings"
)

const (
	SInt  = "Int"
	SBool = "Bool"
	SStr  = "Str"
	SF64  = "F64"
)

type Term struct {
	Op   string // "sym", "lit", "app", "forall", "exists"
	Name string
	Args []*Term
	Sort string
	Vars []*Term // bound variables for quantifiers
	Pats [][]*Term
}

func (t *Term) String() string {
	var sb strings.Builder
	t.write(&sb)
	return sb.String()
}

func (t *Term) write(sb *strings.Builder) {
	switch t.Op {
	case "sym", "lit":
		sb.WriteString(t.Name)
	case "app":
		if len(t.Args) == 0 {
			sb.WriteString(t.Name)
			return
		}
		sb.WriteByte('(')
		sb.WriteString(t.Name)
		for _, a := range t.Args {
			sb.WriteByte(' ')
			a.write(sb)
		}
		sb.WriteByte(')')
	case "forall", "exists":
		sb.WriteByte('(')
		sb.WriteString(t.Op)
		sb.WriteString(" (")
		for i, v := range t.Vars {
			if i > 0 {
				sb.WriteByte(' ')
			}
			fmt.Fprintf(sb, "(%s %s)", v.Name, v.Sort)
		}
		sb.WriteString(") ")
		if len(t.Pats) > 0 {
			sb.WriteString("(! ")
		}
		t.Args[0].write(sb)
		for _, p := range t.Pats {
			sb.WriteString(" :pattern (")
			for i, x := range p {
				if i > 0 {
					sb.WriteByte(' ')
				}
				x.write(sb)
			}
			sb.WriteByte(')')
		}
		if len(t.Pats) > 0 {
			sb.WriteByte(')')
		}
		sb.WriteByte(')')
	default:
		panic("bad term op " + t.Op)
	}
}

func Sym(name, srt string) *Term { return &Term{Op: "sym", Name: name, Sort: srt} }
func App(name, srt string, args ...*Term) *Term {
	for _, a := range args {
		if a == nil {
			panic("nil arg to " + name)
		}
	}
	return &Term{Op: "app", Name: name, Sort: srt, Args: args}
}
func IntLit(n int64) *Term {
	if n < 0 {
		return &Term{Op: "lit", Name: fmt.Sprintf("(- %d)", -n), Sort: SInt}
	}
	return &Term{Op: "lit", Name: fmt.Sprintf("%d", n), Sort: SInt}
}
func BigLit(s string) *Term {
	if strings.HasPrefix(s, "-") {
		return &Term{Op: "lit", Name: "(- " + s[1:] + ")", Sort: SInt}
	}
	return &Term{Op: "lit", Name: s, Sort: SInt}
}

var (
	True  = &Term{Op: "lit", Name: "true", Sort: SBool}
	False = &Term{Op: "lit", Name: "false", Sort: SBool}
)

func BoolLit(b bool) *Term {
	if b {
		return True
	}
	return False
}

func isTrue(t *Term) bool  { return t == True || (t.Op == "lit" && t.Name == "true") }
func isFalse(t *Term) bool { return t == False || (t.Op == "lit" && t.Name == "false") }

func Not(a *Term) *Term {
	if isTrue(a) {
		return False
	}
	if isFalse(a) {
		return True
	}
	if a.Op == "app" && a.Name == "not" {
		return a.Args[0]
	}
	return App("not", SBool, a)
}
func And(as ...*Term) *Term {
	var out []*Term
	for _, a := range as {
		if isTrue(a) {
			continue
		}
		if isFalse(a) {
			return False
		}
		if a.Op == "app" && a.Name == "and" {
			out = append(out, a.Args...)
			continue
		}
		out = append(out, a)
	}
	if len(out) == 0 {
		return True
	}
	if len(out) == 1 {
		return out[0]
	}
	return App("and", SBool, out...)
}
func Or(as ...*Term) *Term {
	var out []*Term
	for _, a := range as {
		if isFalse(a) {
			continue
		}
		if isTrue(a) {
			return True
		}
		out = append(out, a)
	}
	if len(out) == 0 {
		return False
	}
	if len(out) == 1 {
		return out[0]
	}
	return App("or", SBool, out...)
}
func Imp(a, b *Term) *Term {
	if isTrue(a) {
		return b
	}
	if isFalse(a) || isTrue(b) {
		return True
	}
	return App("=>", SBool, a, b)
}
func Eq(a, b *Term) *Term {
	if a == b {
		return True
	}
	if a.Sort != b.Sort {
		panic(fmt.Sprintf("Eq sort mismatch: %s:%s vs %s:%s", a, a.Sort, b, b.Sort))
	}
	if a.Op == "lit" && b.Op == "lit" && a.Sort == SInt {
		return BoolLit(a.Name == b.Name)
	}
	return App("=", SBool, a, b)
}
func Ne(a, b *Term) *Term { return Not(Eq(a, b)) }
func Ite(c, a, b *Term) *Term {
	if isTrue(c) {
		return a
	}
	if isFalse(c) {
		return b
	}
	if a == b {
		return a
	}
	if a.Sort != b.Sort {
		panic(fmt.Sprintf("Ite sort mismatch: %s:%s vs %s:%s", a, a.Sort, b, b.Sort))
	}
	return App("ite", a.Sort, c, a, b)
}
func Add(a, b *Term) *Term { return App("+", SInt, a, b) }
func Sub(a, b *Term) *Term { return App("-", SInt, a, b) }
func Mul(a, b *Term) *Term { return App("*", SInt, a, b) }
func Neg(a *Term) *Term    { return App("-", SInt, a) }
func Lt(a, b *Term) *Term  { return App("<", SBool, a, b) }
func Le(a, b *Term) *Term  { return App("<=", SBool, a, b) }
func Gt(a, b *Term) *Term  { return App(">", SBool, a, b) }
func Ge(a, b *Term) *Term  { return App(">=", SBool, a, b) }

func ArraySort(k, v string) string { return "(Array " + k + " " + v + ")" }

// arrayParts splits "(Array K V)" into K and V.
func arrayParts(s string) (string, string, bool) {
	if !strings.HasPrefix(s, "(Array ") {
		return "", "", false
	}
	body := s[len("(Array ") : len(s)-1]
	// K is the first balanced token
	depth := 0
	for i := 0; i < len(body); i++ {
		switch body[i] {
		case '(':
			depth++
		case ')':
			depth--
		case ' ':
			if depth == 0 {
				return body[:i], body[i+1:], true
			}
		}
	}
	return "", "", false
}

func Select(a, i *Term) *Term {
	k, v, ok := arrayParts(a.Sort)
	if !ok {
		panic("Select on non-array " + a.String() + " : " + a.Sort)
	}
	if i.Sort != k {
		panic(fmt.Sprintf("Select index sort %s, want %s (array %s)", i.Sort, k, a))
	}
	return App("select", v, a, i)
}
func Store(a, i, v *Term) *Term {
	k, vs, ok := arrayParts(a.Sort)
	if !ok {
		panic("Store on non-array " + a.String())
	}
	if i.Sort != k || v.Sort != vs {
		panic(fmt.Sprintf("Store sort mismatch: array %s idx %s val %s (%s)", a.Sort, i.Sort, v.Sort, v))
	}
	return App("store", a.Sort, a, i, v)
}

func Forall(vars []*Term, body *Term, pats ...[]*Term) *Term {
	if isTrue(body) {
		return True
	}
	return &Term{Op: "forall", Vars: vars, Args: []*Term{body}, Sort: SBool, Pats: pats}
}
func Exists(vars []*Term, body *Term) *Term {
	return &Term{Op: "exists", Vars: vars, Args: []*Term{body}, Sort: SBool}
}

// subst replaces symbols by name.
func subst(t *Term, m map[string]*Term) *Term {
	if len(m) == 0 {
		return t
	}
	switch t.Op {
	case "sym":
		if r, ok := m[t.Name]; ok {
			return r
		}
		return t
	case "lit":
		return t
	case "app":
		changed := false
		args := make([]*Term, len(t.Args))
		for i, a := range t.Args {
			args[i] = subst(a, m)
			if args[i] != a {
				changed = true
			}
		}
		if !changed {
			return t
		}
		return &Term{Op: "app", Name: t.Name, Sort: t.Sort, Args: args}
	case "forall", "exists":
		m2 := m
		for _, v := range t.Vars {
			if _, ok := m[v.Name]; ok {
				if &m2 == &m || true {
					m2 = map[string]*Term{}
					for k, x := range m {
						m2[k] = x
					}
				}
				delete(m2, v.Name)
			}
		}
		b := subst(t.Args[0], m2)
		var pats [][]*Term
		for _, p := range t.Pats {
			var np []*Term
			for _, x := range p {
				np = append(np, subst(x, m2))
			}
			pats = append(pats, np)
		}
		return &Term{Op: t.Op, Vars: t.Vars, Args: []*Term{b}, Sort: SBool, Pats: pats}
	}
	return t
}

// collectSyms gathers free symbol and function names used in t.
func collectSyms(t *Term, out map[string]bool) {
	switch t.Op {
	case "sym":
		out[t.Name] = true
	case "app":
		out[t.Name] = true
		for _, a := range t.Args {
			collectSyms(a, out)
		}
	case "forall", "exists":
		collectSyms(t.Args[0], out)
		for _, p := range t.Pats {
			for _, x := range p {
				collectSyms(x, out)
			}
		}
	}
}

// ---------------------------------------------------------------------------
// Declarations

type FunDecl struct {
	Name string
	Args []string
	Ret  string
}

type DTField struct{ Name, Sort string }
type DataType struct {
	Name   string
	Ctor   string
	Fields []DTField
}

// Decls is the global registry of sorts, datatypes, functions and axioms.
type Decls struct {
	sorts   []string
	sortSet map[string]bool
	dts     []*DataType
	dtByNm  map[string]*DataType
	funs    map[string]*FunDecl
	funOrd  []string
	axioms  []*Axiom
}

type Axiom struct {
	Name string
	T    *Term
}

func NewDecls() *Decls {
	d := &Decls{sortSet: map[string]bool{}, dtByNm: map[string]*DataType{}, funs: map[string]*FunDecl{}}
	d.DeclareSort(SStr)
	d.DeclareSort(SF64)
	return d
}

func (d *Decls) DeclareSort(s string) {
	if !d.sortSet[s] {
		d.sortSet[s] = true
		d.sorts = append(d.sorts, s)
	}
}

func (d *Decls) DeclareDT(dt *DataType) {
	if _, ok := d.dtByNm[dt.Name]; ok {
		return
	}
	d.dtByNm[dt.Name] = dt
	d.dts = append(d.dts, dt)
}

func (d *Decls) Fun(name string, args []string, ret string) *FunDecl {
	if f, ok := d.funs[name]; ok {
		return f
	}
	f := &FunDecl{Name: name, Args: args, Ret: ret}
	d.funs[name] = f
	d.funOrd = append(d.funOrd, name)
	return f
}

func (d *Decls) Const(name, srt string) *Term {
	d.Fun(name, nil, srt)
	return Sym(name, srt)
}

func (d *Decls) AddAxiom(name string, t *Term) {
	for _, a := range d.axioms {
		if a.Name == name {
			return
		}
	}
	d.axioms = append(d.axioms, &Axiom{name, t})
}

var builtinOps = map[string]bool{"and": true, "or": true, "not": true, "=>": true, "=": true, "ite": true, "+": true, "-": true, "*": true, "<": true, "<=": true, ">": true, ">=": true, "select": true, "store": true, "div": true, "mod": true, "distinct": true, "abs": true}

// Script renders one obligation: assumptions => goal, as a refutation query.
func (d *Decls) Script(assumps []*Term, goal *Term, wantModel bool) string {
	used := map[string]bool{}
	for _, a := range assumps {
		collectSyms(a, used)
	}
	collectSyms(goal, used)
	// axioms: include those that mention any used function (transitively)
	var axs []*Axiom
	inc := map[*Axiom]bool{}
	for changed := true; changed; {
		changed = false
		for _, ax := range d.axioms {
			if inc[ax] {
				continue
			}
			s := map[string]bool{}
			collectSyms(ax.T, s)
			// A GROUND axiom about particular constants (a string literal's length,
			// a type tag's value, a package-level value) is relevant only when one
			// of THOSE constants occurs; a quantified axiom when one of its
			// functions or constants occurs. (Without the first rule every literal's axiom is
			// pulled in through the shared function symbol.)
			hit := false
			hasConst, constHit := false, false
			for k := range s {
				if builtinOps[k] {
					continue
				}
				f, ok := d.funs[k]
				if !ok {
					continue
				}
				if len(f.Args) == 0 {
					hasConst = true
					if used[k] {
						constHit = true
					}
				} else if used[k] {
					hit = true
				}
			}
			if hasConst && ax.T.Op != "forall" && ax.T.Op != "exists" {
				// ground fact about particular constants
				hit = constHit
			} else if constHit {
				hit = true
			}
			if hit {
				inc[ax] = true
				axs = append(axs, ax)
				for k := range s {
					if !used[k] {
						used[k] = true
						changed = true
					}
				}
			}
		}
	}
	// body first: function declarations, axioms, assumptions, goal
	var body strings.Builder
	// keep registry order for determinism
	for _, n := range d.funOrd {
		if !used[n] {
			continue
		}
		f := d.funs[n]
		fmt.Fprintf(&body, "(declare-fun %s (%s) %s)\n", f.Name, strings.Join(f.Args, " "), f.Ret)
	}
	for _, ax := range axs {
		fmt.Fprintf(&body, "(assert %s) ; axiom %s\n", ax.T, ax.Name)
	}
	for _, a := range assumps {
		fmt.Fprintf(&body, "(assert %s)\n", a)
	}
	fmt.Fprintf(&body, "(assert (not %s))\n", goal)
	bodyText := body.String()
	// Only the sorts and datatypes the body mentions (directly, or through the
	// fields of a mentioned datatype) are declared: the registry accumulates the
	// types of every unit verified before, and a preamble of a thousand unused
	// declarations slows the solvers by an order of magnitude.
	tok := map[string]bool{}
	addToks := func(text string) {
		start := -1
		for i := 0; i <= len(text); i++ {
			c := byte(' ')
			if i < len(text) {
				c = text[i]
			}
			if c == ' ' || c == '(' || c == ')' || c == '\n' || c == '\t' {
				if start >= 0 {
					tok[text[start:i]] = true
					start = -1
				}
			} else if start < 0 {
				start = i
			}
		}
	}
	addToks(bodyText)
	incDT := map[*DataType]bool{}
	for changed := true; changed; {
		changed = false
		for _, dt := range d.dts {
			if incDT[dt] {
				continue
			}
			hit := tok[dt.Name] || tok[dt.Ctor]
			if !hit {
				for _, f := range dt.Fields {
					if tok[f.Name] {
						hit = true
						break
					}
				}
			}
			if hit {
				incDT[dt] = true
				changed = true
				tok[dt.Name] = true
				for _, f := range dt.Fields {
					addToks(f.Sort)
				}
			}
		}
	}
	var sb strings.Builder
	if wantModel {
		sb.WriteString("(set-option :produce-models true)\n")
	}
	sb.WriteString("(set-logic ALL)\n")
	for _, s := range d.sorts {
		if tok[s] {
			fmt.Fprintf(&sb, "(declare-sort %s 0)\n", s)
		}
	}
	for _, dt := range d.dts {
		if !incDT[dt] {
			continue
		}
		fmt.Fprintf(&sb, "(declare-datatypes ((%s 0)) (((%s", dt.Name, dt.Ctor)
		for _, f := range dt.Fields {
			fmt.Fprintf(&sb, " (%s %s)", f.Name, f.Sort)
		}
		sb.WriteString("))))\n")
	}
	sb.WriteString(bodyText)
	sb.WriteString("(check-sat)\n")
	if wantModel {
		sb.WriteString("(get-model)\n")
	}
	return sb.String()
}

func sanitize(s string) string {
	var sb strings.Builder
	for _, r := range s {
		switch {
		case r >= 'a' && r <= 'z', r >= 'A' && r <= 'Z', r >= '0' && r <= '9', r == '_', r == '.', r == '$', r == '@', r == '!':
			sb.WriteRune(r)
		default:
			sb.WriteByte('_')
		}
	}
	return sb.String()
}
