package main

// Contract files: parsing of /*@ ... @*/ blocks (in-repo verif_contracts.go,
// build tag verif) and of /verif/extern/*.spec (contracts on dependencies,
// all of which are assumptions).

import (
	"fmt"
	"go/ast"
	"go/parser"
	"go/token"
	"os"
	"path/filepath"
	"sort"
	"strconv"
	"strings"
)

type SpecClause struct {
	Label string
	Expr  ast.Expr
	Src   string
	Where string
}

type GhostAnchor struct {
	Anchor string // e.g. "append(qp.all)", "call(name)", "entry", "return"
	Stmts  []ast.Stmt
	Src    string
	Where  string
	used   bool
}

type LoopSpec struct {
	Inv       []SpecClause
	Decreases *SpecClause
	used      bool
}

type FuncSpec struct {
	Key      string // types.Func.FullName() or "<funckey>$lit<N>" for literals
	Header   *ast.FuncDecl
	PkgPath  string // package in whose scope identifiers resolve
	Requires []SpecClause
	Ensures  []SpecClause
	Modifies []SpecClause
	ModifiesAll bool
	HasModifies bool
	Loops    map[string]*LoopSpec // key: ordinal ("0") or "over <expr>"
	Ghosts   []*GhostAnchor
	Pure     bool // no heap effect; result unconstrained unless ensures
	Func     bool // deterministic function of its arguments (uninterpreted)
	NoEffect bool // call is skipped entirely
	MayNil   bool
	NonNilResult bool
	Trusted  bool // extern: not verified
	Nullable map[string]bool
	Inline   bool
	NoInline bool
	Where    string
	Lets     []SpecClause // let name = expr (evaluated at entry)
	PanicsIf []SpecClause
	Extra    map[string][]string // free-form directives (sends_exactly, discharges, joined_by...)
	bound    bool
}

type GhostField struct {
	TypeName string // struct type name (in PkgPath)
	PkgPath  string
	Name     string
	TypeSrc  string // Go type syntax; map[K]V = total map
}

type SpecFn struct {
	Name    string
	PkgPath string
	Header  *ast.FuncDecl
	Where   string
}

type Pred struct {
	Name    string
	PkgPath string
	Header  *ast.FuncDecl
	Body    ast.Expr
	Where   string
}

type AxiomSpec struct {
	Name    string
	PkgPath string
	Expr    ast.Expr
	Vars    *ast.FuncDecl // optional: "axiom name(x T, y U): expr" -> universally quantified
	Where   string
}

type LemmaSpec struct {
	Name    string
	PkgPath string
	Header  *ast.FuncDecl // parameters are universally quantified
	Requires []SpecClause
	Ensures  []SpecClause
	Where    string
}

type GuardSpec struct {
	PkgPath string
	Lock    string   // e.g. "ValueStore.putLocks" or "peerMessageSender.lk"
	Fields  []string // "Type.field"
	Where   string
}

type SpecDB struct {
	Funcs       map[string]*FuncSpec
	GhostFields map[string][]*GhostField // key pkgpath+"."+TypeName
	SpecFns     map[string]*SpecFn       // key pkgpath+"."+name ; also global by bare name
	Preds       map[string]*Pred
	Axioms      []*AxiomSpec
	Lemmas      []*LemmaSpec
	PkgModes    map[string]string // import path -> "noeffect" | "pure"
	Guards      []*GuardSpec
	LockInvs    map[string][]SpecClause
	Directives  map[string][]string // pkgpath -> raw directive lines (ledger etc.)
	Immutable   map[string]bool     // package-level variables that never change
	ImmutableFields map[string]bool // pkgpath.Type.field
	Imports     map[string]map[string]string
	Errors      []string
}

func NewSpecDB() *SpecDB {
	return &SpecDB{Funcs: map[string]*FuncSpec{}, GhostFields: map[string][]*GhostField{}, SpecFns: map[string]*SpecFn{}, Preds: map[string]*Pred{}, PkgModes: map[string]string{}, LockInvs: map[string][]SpecClause{}, Directives: map[string][]string{}, Immutable: map[string]bool{}, ImmutableFields: map[string]bool{}, Imports: map[string]map[string]string{}}
}

func parseGoFile(fset *token.FileSet, filename string, src []byte) (*ast.File, error) {
	return parser.ParseFile(fset, filename, src, parser.ParseComments|parser.SkipObjectResolution)
}

// "$" is not legal in Go identifiers: map it to a letter that is.
func dollar(s string) string { return strings.ReplaceAll(s, "$", "ʃ") }

func parseSpecExpr(src string) (ast.Expr, error) {
	return parser.ParseExpr(dollar(src))
}

func parseHeader(src string) (*ast.FuncDecl, error) {
	f, err := parser.ParseFile(token.NewFileSet(), "hdr.go", "package p\n"+dollar(src)+"\n", parser.SkipObjectResolution)
	if err != nil {
		return nil, err
	}
	for _, d := range f.Decls {
		if fd, ok := d.(*ast.FuncDecl); ok {
			return fd, nil
		}
	}
	return nil, fmt.Errorf("no func header in %q", src)
}

func parseStmts(src string) ([]ast.Stmt, error) {
	f, err := parser.ParseFile(token.NewFileSet(), "g.go", "package p\nfunc _() {\n"+dollar(src)+"\n}\n", parser.SkipObjectResolution)
	if err != nil {
		return nil, err
	}
	return f.Decls[0].(*ast.FuncDecl).Body.List, nil
}

// LoadRepoSpecs reads the /*@ @*/ blocks of every verif_contracts*.go file of
// the loaded module packages.
func (db *SpecDB) LoadRepoSpecs(e *Engine) {
	paths := make([]string, 0, len(e.pkgs))
	for p := range e.pkgs {
		paths = append(paths, p)
	}
	sort.Strings(paths)
	for _, pp := range paths {
		p := e.pkgs[pp]
		for i, f := range p.Syntax {
			fn := p.CompiledGoFiles[i]
			if !strings.HasPrefix(filepath.Base(fn), "verif_contracts") {
				continue
			}
			for _, cg := range f.Comments {
				for _, c := range cg.List {
					if strings.HasPrefix(c.Text, "/*@") && strings.HasSuffix(c.Text, "@*/") {
						body := c.Text[3 : len(c.Text)-3]
						line := e.fset.Position(c.Pos()).Line
						db.parseBlock(body, p.PkgPath, strings.TrimPrefix(fn, "/repo/"), line, false)
					}
				}
			}
		}
	}
}

func (db *SpecDB) LoadExternDir(dir string) {
	files, _ := filepath.Glob(filepath.Join(dir, "*.spec"))
	sort.Strings(files)
	for _, f := range files {
		b, err := os.ReadFile(f)
		if err != nil {
			db.Errors = append(db.Errors, err.Error())
			continue
		}
		db.parseBlock(string(b), "", f, 1, true)
	}
}

func (db *SpecDB) errf(where string, format string, args ...any) {
	db.Errors = append(db.Errors, where+": "+fmt.Sprintf(format, args...))
}

// parseBlock parses a line-oriented block. Continuation lines start with
// whitespace followed by '|' or are more indented than the clause start and
// do not begin with a keyword.
func (db *SpecDB) parseBlock(body, pkgPath, file string, line0 int, extern bool) {
	rawLines := strings.Split(body, "\n")
	type ln struct {
		text string
		line int
	}
	var lines []ln
	for i, l := range rawLines {
		t := strings.TrimRight(l, " \t\r")
		if idx := strings.Index(t, " ## "); idx >= 0 {
			t = strings.TrimRight(t[:idx], " \t")
		}
		tt := strings.TrimSpace(t)
		if tt == "" || strings.HasPrefix(tt, "#") {
			continue
		}
		if strings.HasPrefix(tt, "|") && len(lines) > 0 {
			lines[len(lines)-1].text += " " + strings.TrimSpace(tt[1:])
			continue
		}
		lines = append(lines, ln{t, line0 + i})
	}
	var cur *FuncSpec
	var curLemma *LemmaSpec
	curPkg := pkgPath
	for _, l := range lines {
		where := fmt.Sprintf("%s:%d", file, l.line)
		t := strings.TrimSpace(l.text)
		word, rest, _ := strings.Cut(t, " ")
		rest = strings.TrimSpace(rest)
		topLevel := !strings.HasPrefix(l.text, " ") && !strings.HasPrefix(l.text, "\t")
		if topLevel {
			cur = nil
			curLemma = nil
		}
		switch {
		case topLevel && word == "package":
			// extern files: sets the resolution package for what follows
			curPkg = strings.Trim(rest, "\"")
		case topLevel && (word == "noeffect" || word == "pure") && strings.HasPrefix(rest, "package "):
			db.PkgModes[strings.Trim(strings.TrimPrefix(rest, "package "), "\" ")] = word
		case topLevel && word == "ghost" && strings.HasPrefix(rest, "field "):
			// ghost field (T) name type
			r := strings.TrimPrefix(rest, "field ")
			if !strings.HasPrefix(r, "(") {
				db.errf(where, "ghost field: expected (Type)")
				continue
			}
			cl := strings.Index(r, ")")
			tn := strings.TrimLeft(strings.TrimSpace(r[1:cl]), "*")
			fs := strings.Fields(strings.TrimSpace(r[cl+1:]))
			if len(fs) < 2 {
				db.errf(where, "ghost field: expected name and type")
				continue
			}
			gf := &GhostField{TypeName: tn, PkgPath: curPkg, Name: dollar(fs[0]), TypeSrc: strings.Join(fs[1:], " ")}
			k := curPkg + "." + tn
			db.GhostFields[k] = append(db.GhostFields[k], gf)
		case topLevel && word == "specfn":
			h, err := parseHeader("func " + rest)
			if err != nil {
				db.errf(where, "specfn: %v", err)
				continue
			}
			sf := &SpecFn{Name: h.Name.Name, PkgPath: curPkg, Header: h, Where: where}
			db.SpecFns[curPkg+"."+sf.Name] = sf
		case topLevel && word == "pred":
			hs, bs, ok := strings.Cut(rest, "=")
			if !ok {
				db.errf(where, "pred: expected '='")
				continue
			}
			h, err := parseHeader("func " + strings.TrimSpace(hs) + " bool")
			if err != nil {
				db.errf(where, "pred header: %v", err)
				continue
			}
			b, err := parseSpecExpr(bs)
			if err != nil {
				db.errf(where, "pred body: %v", err)
				continue
			}
			db.Preds[curPkg+"."+h.Name.Name] = &Pred{Name: h.Name.Name, PkgPath: curPkg, Header: h, Body: b, Where: where}
		case topLevel && word == "axiom":
			hs, bs, ok := strings.Cut(rest, ":")
			if !ok {
				db.errf(where, "axiom: expected ':'")
				continue
			}
			hs = strings.TrimSpace(hs)
			ax := &AxiomSpec{PkgPath: curPkg, Where: where}
			if strings.Contains(hs, "(") {
				h, err := parseHeader("func " + hs)
				if err != nil {
					db.errf(where, "axiom header: %v", err)
					continue
				}
				ax.Vars = h
				ax.Name = h.Name.Name
			} else {
				ax.Name = hs
			}
			b, err := parseSpecExpr(bs)
			if err != nil {
				db.errf(where, "axiom body: %v", err)
				continue
			}
			ax.Expr = b
			db.Axioms = append(db.Axioms, ax)
		case topLevel && word == "lemma":
			h, err := parseHeader("func " + rest)
			if err != nil {
				db.errf(where, "lemma header: %v", err)
				continue
			}
			curLemma = &LemmaSpec{Name: h.Name.Name, PkgPath: curPkg, Header: h, Where: where}
			db.Lemmas = append(db.Lemmas, curLemma)
		case topLevel && word == "guarded_by":
			// guarded_by Type.lockfield : Type.f1, Type.f2
			ls, fs, ok := strings.Cut(rest, ":")
			if !ok {
				db.errf(where, "guarded_by: expected ':'")
				continue
			}
			g := &GuardSpec{PkgPath: curPkg, Lock: strings.TrimSpace(ls), Where: where}
			for _, f := range strings.Split(fs, ",") {
				g.Fields = append(g.Fields, strings.TrimSpace(f))
			}
			db.Guards = append(db.Guards, g)
		case topLevel && word == "lockinv":
			ls, bs, ok := strings.Cut(rest, ":")
			if !ok {
				db.errf(where, "lockinv: expected ':'")
				continue
			}
			b, err := parseSpecExpr(bs)
			if err != nil {
				db.errf(where, "lockinv: %v", err)
				continue
			}
			k := curPkg + "." + strings.TrimSpace(ls)
			db.LockInvs[k] = append(db.LockInvs[k], SpecClause{Expr: b, Src: strings.TrimSpace(bs), Where: where})
		case topLevel && word == "immutable" && strings.HasPrefix(rest, "field "):
			// immutable field Type.f : written only by constructors (checked structurally)
			db.ImmutableFields[curPkg+"."+strings.TrimSpace(strings.TrimPrefix(rest, "field "))] = true
		case topLevel && word == "immutable":
			db.Immutable[strings.Trim(rest, "\" ")] = true
		case topLevel && word == "import":
			// import name "path"
			fs := strings.Fields(rest)
			if len(fs) == 2 {
				if db.Imports[curPkg] == nil {
					db.Imports[curPkg] = map[string]string{}
				}
				db.Imports[curPkg][fs[0]] = strings.Trim(fs[1], "\"")
			}
		case topLevel && word == "directive":
			db.Directives[curPkg] = append(db.Directives[curPkg], rest)
		case topLevel && (word == "func" || word == "extern" || word == "funclit" || word == "role"):
			fs := &FuncSpec{PkgPath: curPkg, Loops: map[string]*LoopSpec{}, Nullable: map[string]bool{}, Where: where, Trusted: extern, Extra: map[string][]string{}}
			switch word {
			case "func":
				h, err := parseHeader("func " + rest)
				if err != nil {
					db.errf(where, "func header: %v", err)
					continue
				}
				fs.Header = h
				fs.Key = headerKey(curPkg, h)
			case "extern":
				// extern "<FullName>" as func (...) name(...) ...
				q, hs, ok := strings.Cut(rest, " as ")
				key, err := strconv.Unquote(strings.TrimSpace(q))
				if err != nil {
					db.errf(where, "extern: bad key %s", q)
					continue
				}
				fs.Key = key
				fs.Trusted = true
				if ok {
					h, err := parseHeader(strings.TrimSpace(hs))
					if err != nil {
						db.errf(where, "extern header: %v", err)
						continue
					}
					fs.Header = h
				}
			case "role":
				// role <name>(params) results in <func header>: contract of a
				// func-typed parameter/field called inside that function
				rs, hs, ok := strings.Cut(rest, " in ")
				if !ok {
					db.errf(where, "role: expected '<name>(..) in <func>'")
					continue
				}
				rh, err := parseHeader("func " + strings.TrimSpace(rs))
				if err != nil {
					db.errf(where, "role header: %v", err)
					continue
				}
				h, err := parseHeader("func " + strings.TrimSpace(hs))
				if err != nil {
					db.errf(where, "role owner header: %v", err)
					continue
				}
				fs.Header = rh
				fs.Key = headerKey(curPkg, h) + "$role:" + rh.Name.Name
				fs.Trusted = true
			case "funclit":
				// funclit <N> in <func header>   (N-th func literal in source order)
				ns, hs, ok := strings.Cut(rest, " in ")
				if !ok {
					db.errf(where, "funclit: expected 'N in <func>'")
					continue
				}
				h, err := parseHeader("func " + strings.TrimSpace(hs))
				if err != nil {
					db.errf(where, "funclit header: %v", err)
					continue
				}
				fs.Header = h
				fs.Key = headerKey(curPkg, h) + "$lit" + strings.TrimSpace(ns)
			}
			if old, dup := db.Funcs[fs.Key]; dup {
				db.errf(where, "duplicate contract for %s (first at %s)", fs.Key, old.Where)
				continue
			}
			db.Funcs[fs.Key] = fs
			cur = fs
		case !topLevel && curLemma != nil:
			e, err := parseSpecExpr(rest)
			if err != nil {
				db.errf(where, "%s: %v", word, err)
				continue
			}
			c := SpecClause{Expr: e, Src: rest, Where: where}
			switch word {
			case "requires":
				curLemma.Requires = append(curLemma.Requires, c)
			case "ensures":
				curLemma.Ensures = append(curLemma.Ensures, c)
			default:
				db.errf(where, "unknown lemma clause %q", word)
			}
		case !topLevel && cur != nil:
			db.parseClause(cur, word, rest, where)
		default:
			db.errf(where, "cannot parse line: %s", t)
		}
	}
}

func headerKey(pkgPath string, h *ast.FuncDecl) string {
	if h.Recv != nil && len(h.Recv.List) > 0 {
		t := h.Recv.List[0].Type
		ptr := false
		if s, ok := t.(*ast.StarExpr); ok {
			ptr = true
			t = s.X
		}
		// strip type parameters
		if ix, ok := t.(*ast.IndexExpr); ok {
			t = ix.X
		}
		if ix, ok := t.(*ast.IndexListExpr); ok {
			t = ix.X
		}
		name := ""
		if id, ok := t.(*ast.Ident); ok {
			name = id.Name
		}
		if ptr {
			return fmt.Sprintf("(*%s.%s).%s", pkgPath, name, h.Name.Name)
		}
		return fmt.Sprintf("(%s.%s).%s", pkgPath, name, h.Name.Name)
	}
	return pkgPath + "." + h.Name.Name
}

func labelled(rest string) (string, string) {
	// optional "[label]" prefix
	if strings.HasPrefix(rest, "[") {
		if i := strings.Index(rest, "]"); i > 0 {
			return rest[1:i], strings.TrimSpace(rest[i+1:])
		}
	}
	return "", rest
}

func (db *SpecDB) parseClause(fs *FuncSpec, word, rest, where string) {
	mk := func(src string) (SpecClause, bool) {
		lab, s := labelled(src)
		e, err := parseSpecExpr(s)
		if err != nil {
			db.errf(where, "%s: %v in %q", word, err, s)
			return SpecClause{}, false
		}
		return SpecClause{Label: lab, Expr: e, Src: s, Where: where}, true
	}
	switch word {
	case "requires":
		if c, ok := mk(rest); ok {
			fs.Requires = append(fs.Requires, c)
		}
	case "ensures":
		if c, ok := mk(rest); ok {
			fs.Ensures = append(fs.Ensures, c)
		}
	case "panics_if":
		if c, ok := mk(rest); ok {
			fs.PanicsIf = append(fs.PanicsIf, c)
		}
	case "let":
		name, ex, ok := strings.Cut(rest, "=")
		if !ok {
			db.errf(where, "let: expected '='")
			return
		}
		if c, ok := mk(ex); ok {
			c.Label = dollar(strings.TrimSpace(name))
			fs.Lets = append(fs.Lets, c)
		}
	case "modifies":
		fs.HasModifies = true
		if rest == "*" {
			fs.ModifiesAll = true
			return
		}
		if rest == "nothing" {
			return
		}
		for _, part := range splitTop(rest) {
			if c, ok := mk(part); ok {
				fs.Modifies = append(fs.Modifies, c)
			}
		}
	case "pure":
		fs.Pure = true
	case "function":
		fs.Func = true
		fs.Pure = true
	case "noeffect":
		fs.NoEffect = true
	case "maynil":
		fs.MayNil = true
	case "nonnil":
		fs.NonNilResult = true
	case "inline":
		fs.Inline = true
	case "noinline":
		fs.NoInline = true
	case "trusted":
		fs.Trusted = true
	case "nullable":
		for _, n := range strings.Split(rest, ",") {
			fs.Nullable[strings.TrimSpace(n)] = true
		}
	case "loop":
		// loop <key> invariant <expr> | loop <key> decreases <expr>
		var key, kind, ex string
		if i := strings.Index(rest, " invariant "); i >= 0 {
			key, kind, ex = rest[:i], "invariant", rest[i+len(" invariant "):]
		} else if i := strings.Index(rest, " decreases "); i >= 0 {
			key, kind, ex = rest[:i], "decreases", rest[i+len(" decreases "):]
		} else {
			db.errf(where, "loop: expected invariant/decreases")
			return
		}
		key = strings.TrimSpace(key)
		ls := fs.Loops[key]
		if ls == nil {
			ls = &LoopSpec{}
			fs.Loops[key] = ls
		}
		c, ok := mk(ex)
		if !ok {
			return
		}
		if kind == "invariant" {
			ls.Inv = append(ls.Inv, c)
		} else {
			ls.Decreases = &c
		}
	case "ghost":
		// ghost at <anchor>: stmts
		r := strings.TrimPrefix(rest, "at ")
		an, ss, ok := cutTop(r, ':')
		if !ok {
			db.errf(where, "ghost: expected 'at <anchor>: stmts'")
			return
		}
		stmts, err := parseStmts(ss)
		if err != nil {
			db.errf(where, "ghost stmts: %v", err)
			return
		}
		fs.Ghosts = append(fs.Ghosts, &GhostAnchor{Anchor: strings.TrimSpace(an), Stmts: stmts, Src: ss, Where: where})
	default:
		fs.Extra[word] = append(fs.Extra[word], rest)
	}
}

// splitTop splits on commas at parenthesis depth 0.
func splitTop(s string) []string {
	var out []string
	depth := 0
	start := 0
	for i := 0; i < len(s); i++ {
		switch s[i] {
		case '(', '[', '{':
			depth++
		case ')', ']', '}':
			depth--
		case ',':
			if depth == 0 {
				out = append(out, strings.TrimSpace(s[start:i]))
				start = i + 1
			}
		}
	}
	out = append(out, strings.TrimSpace(s[start:]))
	return out
}

func cutTop(s string, sep byte) (string, string, bool) {
	depth := 0
	for i := 0; i < len(s); i++ {
		switch s[i] {
		case '(', '[', '{':
			depth++
		case ')', ']', '}':
			depth--
		default:
			if s[i] == sep && depth == 0 {
				return s[:i], s[i+1:], true
			}
		}
	}
	return s, "", false
}
