package main

// Concurrency-related statements: locks (lockset + guarded_by), channels
// (chan_inv, close-once), go, defer, select, WaitGroup accounting.

import (
	"os"
	"fmt"
	"go/ast"
	"go/token"
	"go/types"
	"strings"
)

// lockKeyOf builds a canonical key for the lock denoted by expression e
// ("x.mu", "v.putLocks[i]"): base object term + field path, and the index term
// for indexed locks.
func (c *ExecCtx) lockKeyOf(st *State, e ast.Expr) (key string, idx *Term, fieldKey string) {
	e = ast.Unparen(e)
	switch x := e.(type) {
	case *ast.IndexExpr:
		k, _, fk := c.lockKeyOf(st, x.X)
		u := c.u
		u.quiet++
		iv := c.eval(st, x.Index)
		u.quiet--
		return k + "[]", iv.T, fk
	case *ast.SelectorExpr:
		if sel, ok := c.info.Selections[x]; ok && sel.Kind() == types.FieldVal {
			u := c.u
			u.quiet++
			sweep := u.sweep
			u.sweep = false
			b := c.eval(st, x.X)
			u.sweep = sweep
			u.quiet--
			// fieldKey: "<pkgpath>::<Type>.<field>" (what guarded_by / lockinv name)
			tn := shortTypeName(derefType(b.Ty))
			if n, _ := structOf(derefType(b.Ty)); n != nil && n.Obj().Pkg() != nil {
				tn = n.Obj().Pkg().Path() + "::" + n.Obj().Name()
			}
			return b.T.String() + "." + x.Sel.Name, nil, tn + "." + x.Sel.Name
		}
		if v, ok := c.info.Uses[x.Sel].(*types.Var); ok {
			return "G." + v.Pkg().Path() + "." + v.Name(), nil, v.Name()
		}
	case *ast.Ident:
		if v, ok := c.info.ObjectOf(x).(*types.Var); ok {
			if isPkgLevel(v) {
				return "G." + v.Pkg().Path() + "." + v.Name(), nil, v.Name()
			}
			if la, ok := st.lockAlias[v]; ok {
				return la.key, la.idx, la.field
			}
			if t, ok := st.vars[v]; ok && t.Sort == SInt {
				return "L." + t.String(), nil, v.Name()
			}
			return fmt.Sprintf("L.%s@%d", v.Name(), v.Pos()), nil, v.Name()
		}
	case *ast.UnaryExpr:
		if x.Op == token.AND {
			return c.lockKeyOf(st, x.X)
		}
	case *ast.StarExpr:
		return c.lockKeyOf(st, x.X)
	}
	return "?" + exprString(e), nil, ""
}

func derefType(t types.Type) types.Type {
	if t == nil {
		return types.Typ[types.Invalid]
	}
	if p, ok := unalias(t).Underlying().(*types.Pointer); ok {
		return p.Elem()
	}
	return t
}

type lockHeld struct {
	mode int // 1 write, 2 read
	idx  *Term
}

// syncCall intercepts sync primitives. Returns handled=true if it did.
func (c *ExecCtx) syncCall(st *State, fn *types.Func, f *ast.SelectorExpr, call *ast.CallExpr) ([]Val, bool) {
	u := c.u
	full := fn.FullName()
	switch full {
	case "(*sync.Mutex).Lock", "(*sync.RWMutex).Lock":
		c.acquire(st, f.X, 1, call.Pos())
		return nil, true
	case "(*sync.RWMutex).RLock":
		c.acquire(st, f.X, 2, call.Pos())
		return nil, true
	case "(*sync.Mutex).Unlock", "(*sync.RWMutex).Unlock", "(*sync.RWMutex).RUnlock":
		c.release(st, f.X, call.Pos())
		return nil, true
	case "(*sync.Mutex).TryLock", "(*sync.RWMutex).TryLock":
		// TryLock: the lock is held exactly when the result is true (a
		// conditional lock, like CtxMutex.Lock); guarded state is forgotten
		ok := u.fresh("trylock", SBool)
		c.yield(st)
		k, _, fieldKey := c.lockKeyOf(st, f.X)
		st.condLocks = append(st.condLocks, condLock{key: k, cond: ok, expr: f.X})
		c.havocGuarded(st, fieldKey, f.X)
		return []Val{{ok, types.Typ[types.Bool]}}, true
	case "(*" + modulePath + "/internal.CtxMutex).Lock", "(" + modulePath + "/internal.CtxMutex).Lock":
		// Lock(ctx) error: held only when nil is returned
		for _, a := range call.Args {
			c.eval(st, a)
		}
		errT := u.fresh("lockerr", SInt)
		base := len(st.assume)
		okS := st.fork()
		okS.assumeT(Eq(errT, IntLit(0)))
		c.acquire(okS, f.X, 1, call.Pos())
		failS := st.fork()
		failS.assumeT(Ne(errT, IntLit(0)))
		// cannot merge states with different locksets into one without
		// losing the lock: keep the lock conditional on the error value.
		m := u.mergeStates(base, []*State{okS, failS})
		if m != nil {
			st.become(m)
			k, _, _ := c.lockKeyOf(st, f.X)
			st.condLocks = append(st.condLocks, condLock{key: k, cond: Eq(errT, IntLit(0)), expr: f.X})
		}
		return []Val{{errT, types.Universe.Lookup("error").Type()}}, true
	case "(*" + modulePath + "/internal.CtxMutex).Unlock", "(" + modulePath + "/internal.CtxMutex).Unlock":
		c.release(st, f.X, call.Pos())
		return nil, true
	case "(*sync.WaitGroup).Add":
		n := c.eval(st, call.Args[0])
		c.runBeforeNamedCallAnchors(st, "Add", call, nil, []Val{n})
		c.wgAdd(st, f.X, n.T)
		u.setTag(st, "wgadd:"+exprString(f.X))
		c.callArgs = []Val{n}
		c.runNamedCallAnchors(st, "Add", call, nil)
		c.callArgs = nil
		return nil, true
	case "(*sync.WaitGroup).Done":
		c.runBeforeNamedCallAnchors(st, "Done", call, nil, nil)
		c.wgAdd(st, f.X, IntLit(-1))
		u.setTag(st, "wgdone:"+exprString(f.X))
		return nil, true
	case "(*sync.WaitGroup).Wait":
		c.runBeforeNamedCallAnchors(st, "Wait", call, nil, nil)
		c.yield(st)
		c.joinWG(st, exprString(f.X))
		u.setTag(st, "wgwait:"+exprString(f.X))
		c.runNamedCallAnchors(st, "Wait", call, nil)
		return nil, true
	case "(*sync.WaitGroup).Go":
		// wg.Go(f): accounted and joined by construction
		if lit, ok := ast.Unparen(call.Args[0]).(*ast.FuncLit); ok {
			c.spawnLit(st, lit, "wg.Go "+exprString(f.X), call.Pos())
		} else {
			c.eval(st, call.Args[0])
		}
		return nil, true
	case "(*sync.Once).Do":
		// body runs at most once; run it on a forked path and merge
		fv := c.eval(st, call.Args[0])
		if cl, ok := st.funcLits[fv.T.Name]; ok {
			base := len(st.assume)
			ran := st.fork()
			c.inlineLit(ran, cl, nil, call.Pos())
			skip := st.fork()
			if m := u.mergeStates(base, []*State{ran, skip}); m != nil {
				st.become(m)
				return nil, true
			}
		}
		c.havocHeaps(st, nil, nil, nil)
		return nil, true
	}
	return nil, false
}

type condLock struct {
	key  string
	cond *Term
	expr ast.Expr
}

func (c *ExecCtx) acquire(st *State, lockExpr ast.Expr, mode int, pos token.Pos) {
	u := c.u
	key, idx, fieldKey := c.lockKeyOf(st, lockExpr)
	if _, held := st.locks[key]; held && idx == nil && mode == 1 {
		u.obligeStatic(st, "lock", false, pos, "lock "+exprString(lockExpr)+" acquired while already held (self-deadlock)")
	}
	c.yield(st)
	st.locks[key] = mode
	if idx != nil {
		st.lockIdx[key] = idx
	}
	// guarded state may have been changed by others while the lock was free
	c.havocGuarded(st, fieldKey, lockExpr)
	// lock invariant may be assumed
	c.lockInv(st, fieldKey, lockExpr, pos, true)
}

func (c *ExecCtx) release(st *State, lockExpr ast.Expr, pos token.Pos) {
	u := c.u
	key, _, fieldKey := c.lockKeyOf(st, lockExpr)
	held := false
	if _, ok := st.locks[key]; ok {
		held = true
	}
	var cond *Term
	if !held {
		for i, cl := range st.condLocks {
			if cl.key == key {
				cond = cl.cond
				st.condLocks = append(st.condLocks[:i:i], st.condLocks[i+1:]...)
				held = true
				break
			}
		}
	}
	if cond != nil {
		u.oblige(st, "lock", cond, pos, "unlock of "+exprString(lockExpr)+" only when it was acquired")
	} else {
		u.obligeStatic(st, "lock", held, pos, "unlock of "+exprString(lockExpr)+" while held")
	}
	c.lockInv(st, fieldKey, lockExpr, pos, false)
	delete(st.locks, key)
	delete(st.lockIdx, key)
}

// lockHeldFor answers whether the lock identified by key is held (possibly
// conditionally: then returns the condition).
func (c *ExecCtx) lockHeldFor(st *State, key string) (bool, *Term, int) {
	if m, ok := st.locks[key]; ok {
		return true, nil, m
	}
	for _, cl := range st.condLocks {
		if cl.key == key {
			return true, cl.cond, 1
		}
	}
	return false, nil, 0
}

// yield: a point where other goroutines may run. State declared guarded by a
// lock that is not held is forgotten at acquisition (havocGuarded); nothing
// else is touched (undeclared state is treated sequentially: listed assumption).
func (c *ExecCtx) yield(st *State) {}

// havocGuarded forgets the fields guarded by the lock field just acquired.
func (c *ExecCtx) havocGuarded(st *State, fieldKey string, lockExpr ast.Expr) {
	u := c.u
	if os.Getenv("GOVC_DEBUG") != "" {
		fmt.Fprintln(os.Stderr, "havocGuarded fieldKey", fieldKey)
	}
	fkPkg, fkName, qualified := strings.Cut(fieldKey, "::")
	if !qualified {
		fkPkg, fkName = "", fieldKey
	}
	for _, g := range u.eng.specs.Guards {
		if g.Lock != fkName && g.Lock != fkName+"[]" {
			continue
		}
		if qualified && g.PkgPath != fkPkg {
			continue
		}
		for _, f := range g.Fields {
			if strings.HasPrefix(f, "$") {
				continue
			}
			// field heap name
			tn, fn, ok := strings.Cut(f, ".")
			if !ok {
				continue
			}
			hn := "H." + u.eng.guardTypePrefix(g, tn) + "." + fn
			cur, ok2 := st.heaps[hn]
			if !ok2 {
				cur = u.initHeap[hn]
			}
			if cur == nil {
				continue // never read so far: initial value is already arbitrary
			}
			u.heapSet(st, hn, u.fresh("hl_"+hn, cur.Sort))
		}
	}
}

func (e *Engine) guardTypePrefix(g *GuardSpec, typeName string) string {
	p := strings.TrimPrefix(g.PkgPath, modulePath)
	p = strings.TrimPrefix(p, "/")
	if p == "" {
		p = "dht"
	}
	return sanitize(strings.ReplaceAll(p, "/", "_") + "." + typeName)
}

// guardCheck emits the #lock obligation for an access to a guarded field.
func (c *ExecCtx) guardCheck(st *State, structT types.Type, f *types.Var, ref *Term, write bool) {
	u := c.u
	if u.quiet > 0 || len(u.eng.specs.Guards) == 0 {
		return
	}
	n, _ := structOf(structT)
	if n == nil || n.Obj().Pkg() == nil {
		return
	}
	want := n.Obj().Name() + "." + f.Name()
	for _, g := range u.eng.specs.Guards {
		if g.PkgPath != n.Obj().Pkg().Path() {
			continue
		}
		for _, gf := range g.Fields {
			if gf != want {
				continue
			}
			if c.exemptFromGuards() {
				return
			}
			// required lock: same object, lock field g.Lock
			lockField := strings.TrimSuffix(g.Lock, "[]")
			_, lf, _ := strings.Cut(lockField, ".")
			key := ref.String() + "." + lf
			if strings.HasSuffix(g.Lock, "[]") {
				key += "[]"
			}
			held, cond, mode := c.lockHeldFor(st, key)
			what := fmt.Sprintf("%s of %s requires %s", map[bool]string{true: "write", false: "read"}[write], want, g.Lock)
			pos := c.curPos
			if !held {
				u.obligeStatic(st, "lock", false, pos, what)
				return
			}
			if write && mode == 2 {
				u.obligeStatic(st, "lock", false, pos, what+" (only read-locked)")
				return
			}
			if cond != nil {
				u.oblige(st, "lock", cond, pos, what)
			} else {
				u.obligeStatic(st, "lock", true, pos, what)
			}
			return
		}
	}
}

// exemptFromGuards: constructors (functions that allocate the object) are
// exempt before publication. We approximate: functions whose contract says
// `constructor`.
func (c *ExecCtx) exemptFromGuards() bool {
	root := c
	for root.parent != nil {
		root = root.parent
	}
	if root.spec != nil {
		if _, ok := root.spec.Extra["constructor"]; ok {
			return true
		}
	}
	return false
}

func (c *ExecCtx) lockInv(st *State, fieldKey string, lockExpr ast.Expr, pos token.Pos, assume bool) {
	u := c.u
	if c.pkg == nil {
		return
	}
	fkPkg, fkName, qualified := strings.Cut(fieldKey, "::")
	if !qualified {
		fkPkg, fkName = c.pkg.PkgPath, fieldKey
	}
	invs := u.eng.specs.LockInvs[fkPkg+"."+fkName]
	if len(invs) == 0 {
		return
	}
	// bind "self" to the object owning the lock
	binds := map[string]Val{}
	if se, ok := ast.Unparen(lockExpr).(*ast.SelectorExpr); ok {
		u.quiet++
		b := c.eval(st, se.X)
		u.quiet--
		binds["self"] = b
	}
	for _, cl := range invs {
		if assume {
			st.assumeT(c.specBoolAssume(st, c.oldState, cl, pos, binds))
		} else {
			u.oblige(st, "lockinv", c.specBool(st, c.oldState, cl, pos, binds), pos, "lock invariant at release: "+cl.Src)
		}
	}
}

// ---------------------------------------------------------------------------
// WaitGroup accounting (ghost counter per wait group expression)

func (c *ExecCtx) wgAdd(st *State, wgExpr ast.Expr, n *Term) {
	k := "$wg:" + exprString(wgExpr)
	cur, ok := st.ghost[k]
	if !ok {
		cur = IntLit(0)
	}
	c.u.ghostSet(st, k, Add(cur, n))
}

// ---------------------------------------------------------------------------
// defer / go

func (c *ExecCtx) execDefer(st *State, x *ast.DeferStmt) {
	call := x.Call
	d := deferred{call: call, info: c.info, pkg: c.pkg}
	if lit, ok := ast.Unparen(call.Fun).(*ast.FuncLit); ok {
		d.lit = lit
		sig := c.typeOf(lit).(*types.Signature)
		d.args = c.evalArgs(st, call, sig, nil)
		st.defers = append(st.defers, d)
		return
	}
	// evaluate arguments now (Go semantics), call later
	if tv, ok := c.info.Types[call.Fun]; ok {
		if sig, ok := unalias(tv.Type).Underlying().(*types.Signature); ok {
			if !c.isSyncOrBuiltin(call) {
				d.args = c.evalArgs(st, call, sig, nil)
			}
		}
	}
	st.defers = append(st.defers, d)
}

func (c *ExecCtx) isSyncOrBuiltin(call *ast.CallExpr) bool {
	switch f := ast.Unparen(call.Fun).(type) {
	case *ast.Ident:
		if _, ok := c.info.Uses[f].(*types.Builtin); ok {
			return true
		}
	case *ast.SelectorExpr:
		if sel, ok := c.info.Selections[f]; ok && sel.Kind() == types.MethodVal {
			full := sel.Obj().(*types.Func).FullName()
			if strings.HasPrefix(full, "(*sync.") || strings.Contains(full, "internal.CtxMutex") {
				return true
			}
		}
	}
	return false
}

// runDefers executes the deferred calls of a returning state (LIFO).
func (c *ExecCtx) runDefers(st *State) []*State {
	states := []*State{st}
	for len(st.defers) > 0 {
		n := len(st.defers)
		d := st.defers[n-1]
		var next []*State
		for _, s := range states {
			if s.dead {
				continue
			}
			s.defers = s.defers[: n-1 : n-1]
			sub := &ExecCtx{u: c.u, info: d.info, pkg: d.pkg, fn: c.fn, depth: c.depth, parent: c.parent, oldState: c.oldState, spec: c.spec, results: c.results, binds: c.binds, inDefer: true}
			if d.lit != nil {
				sub2 := &ExecCtx{u: c.u, info: d.info, pkg: d.pkg, fn: c.fn, depth: c.depth + 1, parent: c, oldState: c.oldState, lit: d.lit}
				_ = sub2
				sub.inlineLit(s, &closure{lit: d.lit, info: d.info, pkg: d.pkg}, d.args, d.call.Pos())
			} else {
				sub.evalCall(s, d.call)
			}
			if !s.dead {
				next = append(next, s)
			}
		}
		states = next
		if len(states) == 0 {
			return nil
		}
		st = states[0]
	}
	return states
}

func (c *ExecCtx) execGo(st *State, x *ast.GoStmt) {
	call := x.Call
	if lit, ok := ast.Unparen(call.Fun).(*ast.FuncLit); ok {
		sig := c.typeOf(lit).(*types.Signature)
		args := c.evalArgs(st, call, sig, nil)
		acknowledged := false
		if spec := c.ownSpec(); spec != nil {
			for _, g := range spec.Ghosts {
				if g.Anchor == "go(func)" {
					g.used = true
					acknowledged = true
					binds := map[string]Val{}
					for i, a := range args {
						binds[fmt.Sprintf("ʃarg%d", i)] = a
					}
					c.execGhostWith(st, g, x.Pos(), binds)
				}
			}
		}
		c.goLedger(st, acknowledged, "func literal", x.Pos())
		c.spawnLit(st, lit, "go", x.Pos())
		return
	}
	// go f(args): evaluate args; callee runs concurrently (its own unit)
	if tv, ok := c.info.Types[call.Fun]; ok {
		if sig, ok := unalias(tv.Type).Underlying().(*types.Signature); ok {
			if sel, ok := ast.Unparen(call.Fun).(*ast.SelectorExpr); ok {
				if s, ok := c.info.Selections[sel]; ok && s.Kind() == types.MethodVal {
					c.eval(st, sel.X)
				}
			}
			args := c.evalArgs(st, call, sig, nil)
			// ghost anchors "go(name)"
			acknowledged := false
			defer func() { c.goLedger(st, acknowledged, calleeName(call), x.Pos()) }()
			if spec := c.ownSpec(); spec != nil {
				name := calleeName(call)
				for _, g := range spec.Ghosts {
					if g.Anchor == "go("+name+")" {
						acknowledged = true
						g.used = true
						binds := map[string]Val{}
						for i, a := range args {
							binds[fmt.Sprintf("ʃarg%d", i)] = a
						}
						c.execGhostWith(st, g, call.Pos(), binds)
					}
				}
			}
		}
	}
	c.u.eng.abstracted["go:"+exprString(call.Fun)] = true
}

// goLedger: in checks that keep a goroutine ledger (props/<ID>.json
// "go_ledger": true) every go statement of a unit under contract must be
// acknowledged by a `ghost at go(...)` anchor of that contract - a goroutine
// the contract does not know about is not on the shutdown ledger.
func (c *ExecCtx) goLedger(st *State, acknowledged bool, what string, pos token.Pos) {
	u := c.u
	if !u.eng.goLedgerOn || u.quiet > 0 || acknowledged {
		return
	}
	if c.ownSpec() == nil {
		return // inlined contract-less code: not a ledger unit
	}
	u.obligeStatic(st, "ledger", false, pos, "goroutine ("+what+") started without being accounted for in the contract (no `ghost at go(...)` anchor)")
}

// spawnLit: a goroutine body is not executed here; variables it assigns
// become volatile; it is verified as a separate unit.
func (c *ExecCtx) spawnLit(st *State, lit *ast.FuncLit, how string, pos token.Pos) {
	before := map[types.Object]bool{}
	for k, v := range st.volatile {
		if v {
			before[k] = true
		}
	}
	c.markCaptured(st, lit)
	// which wait groups account for this goroutine?
	var wgs []string
	if strings.HasPrefix(how, "wg.Go ") {
		wgs = append(wgs, strings.TrimPrefix(how, "wg.Go "))
	}
	ast.Inspect(lit.Body, func(n ast.Node) bool {
		if ce, ok := n.(*ast.CallExpr); ok {
			if se, ok := ce.Fun.(*ast.SelectorExpr); ok && se.Sel.Name == "Done" {
				if s, ok := c.info.Selections[se]; ok && s.Obj().(*types.Func).FullName() == "(*sync.WaitGroup).Done" {
					wgs = append(wgs, exprString(se.X))
				}
			}
		}
		return true
	})
	if len(wgs) > 0 {
		nj := map[types.Object][]string{}
		for k, v := range st.joiners {
			nj[k] = v
		}
		for k, v := range st.volatile {
			if v && !before[k] {
				nj[k] = append(append([]string{}, nj[k]...), wgs...)
			}
		}
		st.joiners = nj
	}
	c.litOrd++
}

// joinWG: after wg.Wait() the goroutines accounted on wg have finished; the
// variables only they write are stable again (one unknown value).
func (c *ExecCtx) joinWG(st *State, wg string) {
	for obj, ws := range st.joiners {
		if !st.volatile[obj] {
			continue
		}
		for _, w := range ws {
			if w == wg {
				delete(st.volatile, obj)
				if v, ok := obj.(*types.Var); ok {
					t := c.u.fresh("joined_"+v.Name(), c.sortOfType(v.Type()))
					c.typeFacts(st, t, v.Type())
					c.u.varSet(st, v, t)
				}
				break
			}
		}
	}
}

// ---------------------------------------------------------------------------
// channels

func (c *ExecCtx) chanKey(st *State, e ast.Expr) string {
	k, _, _ := c.lockKeyOf(st, e)
	return k
}

func (c *ExecCtx) chanInvFor(e ast.Expr) []SpecClause {
	if c.spec == nil {
		return nil
	}
	return nil
}

func (c *ExecCtx) execSend(st *State, x *ast.SendStmt) {
	u := c.u
	ch := c.eval(st, x.Chan)
	v := c.eval(st, x.Value)
	if ct, ok := unalias(ch.Ty).Underlying().(*types.Chan); ok {
		v = Val{c.convert(st, v, ct.Elem()), ct.Elem()}
	}
	CL := u.heapGet(st, "C.closed", ArraySort(SInt, SBool))
	if c.sweepOn() {
		key := c.chanKey(st, x.Chan)
		if st.closed[key] {
			u.obligeStatic(st, "chan", false, x.Pos(), "send on closed channel "+exprString(x.Chan))
		}
	}
	_ = CL
	c.checkChanInv(st, x.Chan, v, x.Pos(), false)
	if spec := c.ownSpec(); spec != nil {
		for _, g := range spec.Ghosts {
			if g.Anchor == "send("+exprString(x.Chan)+")" {
				g.used = true
				c.execGhostWith(st, g, x.Pos(), map[string]Val{"ʃmsg": v})
			}
		}
	}
	u.setTag(st, "sent:"+exprString(x.Chan))
	k := "$sent:" + exprString(x.Chan)
	cur, ok := st.ghost[k]
	if !ok {
		cur = IntLit(0)
	}
	u.ghostSet(st, k, Add(cur, IntLit(1)))
}

// checkChanInv asserts (send) or assumes (receive) the channel's message invariant.
func (c *ExecCtx) checkChanInv(st *State, chExpr ast.Expr, v Val, pos token.Pos, assume bool) {
	u := c.u
	root := c
	for root.parent != nil && root.spec == nil {
		root = root.parent
	}
	name := exprString(chExpr)
	var clauses []string
	if root.spec != nil {
		clauses = root.spec.Extra["chan_inv"]
	}
	for _, raw := range clauses {
		// chan_inv <chanexpr> : <pred over $msg>
		ce, pred, ok := cutTop(raw, ':')
		if !ok || strings.TrimSpace(ce) != name {
			continue
		}
		ex, err := parseSpecExpr(pred)
		if err != nil {
			u.unsupportedf(pos, "chan_inv parse: %v", err)
			continue
		}
		binds := map[string]Val{"ʃmsg": v}
		cl := SpecClause{Expr: ex, Src: strings.TrimSpace(pred), Where: root.spec.Where}
		t := root.specBoolIn(c, st, root.oldState, cl, pos, binds)
		if assume {
			st.assumeT(t)
		} else {
			u.oblige(st, "chan", t, pos, "message invariant of "+name+": "+cl.Src)
		}
	}
}

func (c *ExecCtx) recvValue(st *State, ch Val, chExpr ast.Expr, pos token.Pos) Val {
	u := c.u
	ct, ok := unalias(ch.Ty).Underlying().(*types.Chan)
	if !ok {
		return Val{u.fresh("recv", SInt), types.Typ[types.Invalid]}
	}
	v := u.fresh("recv", c.sortOfType(ct.Elem()))
	c.typeFacts(st, v, ct.Elem())
	val := Val{v, ct.Elem()}
	c.checkChanInv(st, chExpr, val, pos, true)
	if spec := c.ownSpec(); spec != nil {
		for _, g := range spec.Ghosts {
			if g.Anchor == "recv("+exprString(chExpr)+")" {
				g.used = true
				c.execGhostWith(st, g, pos, map[string]Val{"ʃmsg": val})
			}
		}
	}
	return val
}

// chanNeverClosed: e names a local channel variable of the enclosing function
// declaration that is created there with make and only ever used as the
// operand of send / receive / range (never closed, passed on, stored or
// aliased). A receive from it never observes a closed channel.
func (c *ExecCtx) chanNeverClosed(e ast.Expr) bool {
	if se, isSel := ast.Unparen(e).(*ast.SelectorExpr); isSel {
		// a channel-typed struct field that no loaded package ever closes,
		// passes on or copies: a receive from it never observes "closed"
		if sel, ok := c.info.Selections[se]; ok && sel.Kind() == types.FieldVal {
			if f, ok := sel.Obj().(*types.Var); ok {
				return c.u.eng.fieldChanNeverClosed(f)
			}
		}
		return false
	}
	id, ok := ast.Unparen(e).(*ast.Ident)
	if !ok {
		return false
	}
	obj, ok := c.info.ObjectOf(id).(*types.Var)
	if !ok || isPkgLevel(obj) || obj.IsField() {
		return false
	}
	root := c
	for root.fn == nil && root.parent != nil {
		root = root.parent
	}
	if root.fn == nil || root.fn.Decl == nil || root.fn.Decl.Body == nil {
		return false
	}
	body := root.fn.Decl.Body
	if obj.Pos() < body.Pos() || obj.Pos() > body.End() {
		return false // parameter or foreign
	}
	made, okAll := c.u.eng.chanVarQuiet(root.fn.Pkg.TypesInfo, body, obj, 0)
	return okAll && made
}

// recvDelivers: the unit's contract says `recv_delivers <chan expr>`.
func (c *ExecCtx) recvDelivers(e ast.Expr) bool {
	root := c
	for root.parent != nil && root.spec == nil {
		root = root.parent
	}
	if root.spec == nil {
		return false
	}
	name := exprString(e)
	for _, raw := range root.spec.Extra["recv_delivers"] {
		if strings.TrimSpace(raw) == name {
			note := "recv_delivers " + name + " (a receive obtains a sent value, not the closed-channel zero)"
			seen := false
			for _, a := range c.u.assumesUsed {
				if a == note {
					seen = true
				}
			}
			if !seen {
				c.u.assumesUsed = append(c.u.assumesUsed, note)
			}
			return true
		}
	}
	return false
}

// chanVarQuiet: inside `body`, channel variable obj is only ever the operand of
// send / receive / range, the target of its defining make, or an argument
// handed to a module function whose corresponding parameter is used the same
// way (recursively): nobody can close it. made reports a defining
// `v := make(chan ...)` in body.
func (e *Engine) chanVarQuiet(info *types.Info, body ast.Node, obj *types.Var, depth int) (made, okAll bool) {
	okAll = true
	if depth > 4 {
		return false, false
	}
	var stack []ast.Node
	ast.Inspect(body, func(n ast.Node) bool {
		if n == nil {
			stack = stack[:len(stack)-1]
			return true
		}
		stack = append(stack, n)
		uid, isID := n.(*ast.Ident)
		if !isID || info.ObjectOf(uid) != obj || len(stack) < 2 {
			return true
		}
		switch p := stack[len(stack)-2].(type) {
		case *ast.UnaryExpr:
			if p.Op == token.ARROW {
				return true
			}
		case *ast.SendStmt:
			if p.Chan == n {
				return true
			}
		case *ast.RangeStmt:
			if p.X == n {
				return true
			}
		case *ast.AssignStmt:
			// the defining  ch := make(chan T, n)
			if len(p.Lhs) == 1 && len(p.Rhs) == 1 && p.Lhs[0] == n && p.Tok == token.DEFINE {
				if call, ok := p.Rhs[0].(*ast.CallExpr); ok {
					if f, ok := call.Fun.(*ast.Ident); ok && f.Name == "make" {
						made = true
						return true
					}
				}
			}
		case *ast.CallExpr:
			// passed to a module function: its parameter must be quiet too
			for ai, a := range p.Args {
				if a != n {
					continue
				}
				var fn *types.Func
				switch f := ast.Unparen(p.Fun).(type) {
				case *ast.Ident:
					fn, _ = info.Uses[f].(*types.Func)
				case *ast.SelectorExpr:
					fn, _ = info.Uses[f.Sel].(*types.Func)
				}
				if fn == nil {
					break
				}
				fi := e.funcs[fn]
				if fi == nil || fi.Decl == nil || fi.Decl.Body == nil || fi.Decl.Type.Params == nil {
					break
				}
				// parameter object at position ai
				k := 0
				var pobj *types.Var
				for _, fld := range fi.Decl.Type.Params.List {
					for _, nm := range fld.Names {
						if k == ai {
							pobj, _ = fi.Pkg.TypesInfo.Defs[nm].(*types.Var)
						}
						k++
					}
				}
				if pobj == nil {
					break
				}
				if _, ok2 := e.chanVarQuiet(fi.Pkg.TypesInfo, fi.Decl.Body, pobj, depth+1); ok2 {
					return true
				}
			}
		}
		okAll = false
		return true
	})
	return made, okAll
}

// fieldChanNeverClosed: module-wide syntactic scan (cached): field f (of
// channel type) is used only as the operand of send / receive / range, in
// make-assignments and composite literals - never closed, copied or passed on.
func (e *Engine) fieldChanNeverClosed(f *types.Var) bool {
	if e.chanFieldEscapes == nil {
		e.chanFieldEscapes = map[*types.Var]bool{}
		for _, p := range e.pkgs {
			info := p.TypesInfo
			for _, file := range p.Syntax {
				var stack []ast.Node
				ast.Inspect(file, func(n ast.Node) bool {
					if n == nil {
						stack = stack[:len(stack)-1]
						return true
					}
					stack = append(stack, n)
					se, ok := n.(*ast.SelectorExpr)
					if !ok || len(stack) < 2 {
						return true
					}
					sel, ok := info.Selections[se]
					if !ok || sel.Kind() != types.FieldVal {
						return true
					}
					fv, ok := sel.Obj().(*types.Var)
					if !ok {
						return true
					}
					if _, isChan := unalias(fv.Type()).Underlying().(*types.Chan); !isChan {
						return true
					}
					switch par := stack[len(stack)-2].(type) {
					case *ast.UnaryExpr:
						if par.Op == token.ARROW {
							return true
						}
					case *ast.SendStmt:
						if par.Chan == n {
							return true
						}
					case *ast.RangeStmt:
						if par.X == n {
							return true
						}
					case *ast.AssignStmt:
						for _, l := range par.Lhs {
							if l == n {
								return true // the field is assigned (e.g. = make(chan ...))
							}
						}
					}
					e.chanFieldEscapes[fv] = true
					return true
				})
			}
		}
	}
	return !e.chanFieldEscapes[f]
}

func (c *ExecCtx) evalRecv(st *State, x *ast.UnaryExpr, commaOk bool) []Val {
	u := c.u
	ch := c.eval(st, x.X)
	c.yield(st)
	ct, ok := unalias(ch.Ty).Underlying().(*types.Chan)
	if !ok {
		u.unsupportedf(x.Pos(), "receive from %s", ch.Ty)
		return []Val{{u.fresh("recv", SInt), types.Typ[types.Invalid]}, {u.fresh("ok", SBool), types.Typ[types.Bool]}}
	}
	okT := u.fresh("recvok", SBool)
	if c.chanNeverClosed(x.X) {
		st.assumeT(okT)
	} else if c.recvDelivers(x.X) {
		// contract clause `recv_delivers ch`: ASSUMED (and listed) that a receive
		// on ch in this unit obtains a sent value, not the closed-channel zero
		st.assumeT(okT)
	}
	base := len(st.assume)
	open := st.fork()
	open.assumeT(okT)
	v := c.recvValue(open, ch, x.X, x.Pos())
	res := u.fresh("recvv", v.T.Sort)
	open.assume = append(open.assume, Eq(res, v.T))
	closedS := st.fork()
	closedS.assumeT(Not(okT))
	closedS.assume = append(closedS.assume, Eq(res, u.eng.tm.Zero(ct.Elem())))
	if m := u.mergeStates(base, []*State{open, closedS}); m != nil {
		st.become(m)
	}
	u.setTag(st, "recv:"+exprString(x.X))
	return []Val{{res, ct.Elem()}, {okT, types.Typ[types.Bool]}}
}

func (c *ExecCtx) closeChan(st *State, ch Val, e ast.Expr, pos token.Pos) {
	u := c.u
	key := c.chanKey(st, e)
	if c.sweepOn() || true {
		if !(ch.T.Op == "sym" && u.captured[ch.T.Name]) {
			c.nilCheckKind(st, ch.T, pos, "chan", "close of nil channel")
		}
		if st.closed[key] {
			u.obligeStatic(st, "once", false, pos, "channel "+exprString(e)+" closed twice on this path")
		} else {
			u.obligeStatic(st, "once", true, pos, "channel "+exprString(e)+" closed at most once on this path")
		}
	}
	st.closed[key] = true
	u.setTag(st, "closed:"+exprString(e))
}

func (c *ExecCtx) nilCheckKind(st *State, ref *Term, pos token.Pos, kind, what string) {
	if !c.u.sweep || ref.Sort != SInt {
		return
	}
	c.u.oblige(st, kind, Ne(ref, IntLit(0)), pos, what)
}

func (c *ExecCtx) execSelect(st *State, x *ast.SelectStmt, label string) []*State {
	u := c.u
	base := len(st.assume)
	lc := &loopCtx{label: label, isSwitch: true}
	c.loops = append(c.loops, lc)
	var outs []*State
	c.yield(st)
	for _, cl := range x.Body.List {
		cc := cl.(*ast.CommClause)
		s := st.fork()
		if cc.Comm != nil {
			// a communication on a nil channel is never ready: the case is
			// only taken when the channel is non-nil
			chanNonNil := func(e ast.Expr) {
				u.quiet++
				cv := c.eval(s, e)
				u.quiet--
				if cv.T != nil && cv.T.Sort == SInt {
					s.assumeT(Ne(cv.T, IntLit(0)))
				}
			}
			switch cm := cc.Comm.(type) {
			case *ast.SendStmt:
				chanNonNil(cm.Chan)
				c.execSend(s, cm)
			case *ast.ExprStmt:
				if ue, ok := ast.Unparen(cm.X).(*ast.UnaryExpr); ok && ue.Op == token.ARROW {
					c.evalRecv(s, ue, false)
				}
			case *ast.AssignStmt:
				if ue, ok := ast.Unparen(cm.Rhs[0]).(*ast.UnaryExpr); ok && ue.Op == token.ARROW {
					vals := c.evalRecv(s, ue, len(cm.Lhs) > 1)
					for i, l := range cm.Lhs {
						if cm.Tok == token.DEFINE {
							if id, ok := l.(*ast.Ident); ok && id.Name != "_" {
								if obj := c.info.Defs[id]; obj != nil {
									u.varSet(s, obj, vals[i].T)
									continue
								}
							}
						}
						c.assignTo(s, l, vals[i])
					}
				}
			}
		}
		if !s.dead {
			outs = append(outs, c.execBlock([]*State{s}, cc.Body)...)
		}
	}
	c.loops = c.loops[:len(c.loops)-1]
	outs = append(outs, lc.breaks...)
	return u.mergeOrKeep(base, outs)
}
