package main

// Go type -> SMT sort mapping, zero values, field heaps.

import (
	"hash/fnv"
	"fmt"
	"go/types"
	"strings"
)

const modulePath = "github.com/libp2p/go-libp2p-kad-dht"

type TypeMap struct {
	d     *Decls
	cache map[string]string // types.TypeString -> sort
	busy  map[string]bool
	structNames map[*types.Struct]string // canonical name per struct (type B A shares A's)
	heapPkg     map[string]*types.Package // "H.<struct>." prefix -> defining package
	immutableFields map[string]bool
	immutableHeaps  map[string]bool
	valueImmut      map[string][]immutAcc // heap of struct values -> immutable sub-field accessors
}

func NewTypeMap(d *Decls) *TypeMap {
	return &TypeMap{d: d, cache: map[string]string{}, busy: map[string]bool{}, structNames: map[*types.Struct]string{}, heapPkg: map[string]*types.Package{}, immutableHeaps: map[string]bool{}, valueImmut: map[string][]immutAcc{}}
}

func qual(p *types.Package) string {
	if p == nil {
		return ""
	}
	return p.Path()
}

func typeKey(t types.Type) string { return types.TypeString(t, qual) }

// canonType: alias-free structural name of a type; contains "?" when a type
// parameter occurs.
func canonType(t types.Type) string {
	t = unalias(t)
	switch x := t.(type) {
	case *types.Named:
		s := x.Obj().Name()
		if x.Obj().Pkg() != nil {
			s = x.Obj().Pkg().Path() + "." + s
		}
		if ta := x.TypeArgs(); ta != nil && ta.Len() > 0 {
			s += "["
			for i := 0; i < ta.Len(); i++ {
				s += canonType(ta.At(i)) + ","
			}
			s += "]"
		}
		return s
	case *types.Pointer:
		return "*" + canonType(x.Elem())
	case *types.Slice:
		return "[]" + canonType(x.Elem())
	case *types.Array:
		return fmt.Sprintf("[%d]%s", x.Len(), canonType(x.Elem()))
	case *types.Map:
		return "map[" + canonType(x.Key()) + "]" + canonType(x.Elem())
	case *types.Chan:
		return "chan " + canonType(x.Elem())
	case *types.TypeParam:
		return "?"
	case *types.Struct:
		s := "struct{"
		for i := 0; i < x.NumFields(); i++ {
			s += x.Field(i).Name() + " " + canonType(x.Field(i).Type()) + ";"
		}
		return s + "}"
	}
	return types.TypeString(t, qual)
}

// mapHeapBase names the heaps of a Go map type. Maps of different Go types
// can never alias (map types convert only between identical underlying
// types), so the heaps are partitioned by key and element TYPE, not sort.
func (tm *TypeMap) mapHeapBase(mt *types.Map) string {
	ks, vs := tm.SortOf(mt.Key()), tm.SortOf(mt.Elem())
	base := "M." + sanitize(ks) + "." + sanitize(vs)
	ct := canonType(mt)
	if strings.Contains(ct, "?") {
		return base
	}
	h := fnv.New32a()
	h.Write([]byte(ct))
	return fmt.Sprintf("%s.t%08x", base, h.Sum32())
}

func shortTypeName(t types.Type) string {
	s := types.TypeString(t, func(p *types.Package) string {
		if p == nil {
			return ""
		}
		path := p.Path()
		if strings.HasPrefix(path, modulePath) {
			path = strings.TrimPrefix(path, modulePath)
			path = strings.TrimPrefix(path, "/")
			if path == "" {
				return "dht"
			}
			return strings.ReplaceAll(path, "/", "_")
		}
		if i := strings.LastIndex(path, "/"); i >= 0 {
			// keep last two elements to limit collisions
			rest := path[:i]
			if j := strings.LastIndex(rest, "/"); j >= 0 {
				return sanitize(path[j+1:])
			}
		}
		return sanitize(path)
	})
	return sanitize(s)
}

func inModule(p *types.Package) bool {
	return p != nil && strings.HasPrefix(p.Path(), modulePath)
}

func unalias(t types.Type) types.Type { return types.Unalias(t) }

// structIsTransparent: module structs and external structs whose fields are
// all exported are modelled field by field; other external structs are opaque.
func structIsTransparent(named *types.Named, st *types.Struct) bool {
	if named != nil && named.Obj() != nil && inModule(named.Obj().Pkg()) {
		return true
	}
	if named != nil && named.Obj() != nil && named.Obj().Pkg() != nil {
		switch named.Obj().Pkg().Path() + "." + named.Obj().Name() {
		case "time.Time", "sync.Mutex", "sync.RWMutex", "sync.WaitGroup", "sync.Once", "math/big.Int", "sync/atomic.Int32", "sync/atomic.Int64", "sync/atomic.Bool", "sync/atomic.Uint64", "sync/atomic.Uint32":
			return false
		}
	}
	for i := 0; i < st.NumFields(); i++ {
		if !st.Field(i).Exported() {
			return false
		}
	}
	return true
}

func (tm *TypeMap) SortOf(t types.Type) string {
	t = unalias(t)
	key := typeKey(t)
	if s, ok := tm.cache[key]; ok {
		return s
	}
	s := tm.sortOf(t, key)
	tm.cache[key] = s
	return s
}

func (tm *TypeMap) sortOf(t types.Type, key string) string {
	switch tt := t.(type) {
	case *types.Basic:
		info := tt.Info()
		switch {
		case info&types.IsBoolean != 0:
			return SBool
		case info&types.IsInteger != 0:
			return SInt
		case info&types.IsString != 0:
			return SStr
		case info&types.IsFloat != 0, info&types.IsComplex != 0:
			return SF64
		}
		return SInt // unsafe.Pointer, untyped nil
	case *types.Named:
		u := tt.Underlying()
		if st, ok := u.(*types.Struct); ok {
			name := "S_" + tm.canonStruct(tt, st)
			if !structIsTransparent(tt, st) {
				tm.d.DeclareSort(name)
				return name
			}
			if tm.busy[key] {
				// recursive by value: impossible in Go
				return name
			}
			tm.busy[key] = true
			tm.declStruct(name, st)
			delete(tm.busy, key)
			return name
		}
		return tm.SortOf(u)
	case *types.Pointer, *types.Map, *types.Chan, *types.Signature, *types.Interface:
		return SInt
	case *types.Slice:
		es := tm.SortOf(tt.Elem())
		name := "Sl_" + sanitize(es)
		sliceElem[name] = es
		tm.d.DeclareDT(&DataType{Name: name, Ctor: "mk_" + name, Fields: []DTField{
			{"arr_" + name, ArraySort(SInt, es)}, {"len_" + name, SInt}, {"cap_" + name, SInt}, {"nil_" + name, SBool}}})
		return name
	case *types.Array:
		return ArraySort(SInt, tm.SortOf(tt.Elem()))
	case *types.Struct:
		name := "S_anon_" + sanitize(fmt.Sprintf("%x", hashString(key)))
		tm.declStruct(name, tt)
		return name
	case *types.TypeParam:
		name := "TP_" + sanitize(tt.Obj().Name())
		tm.d.DeclareSort(name)
		return name
	case *types.Tuple:
		return SInt
	}
	return SInt
}

func hashString(s string) uint32 {
	var h uint32 = 2166136261
	for i := 0; i < len(s); i++ {
		h ^= uint32(s[i])
		h *= 16777619
	}
	return h
}

func (tm *TypeMap) declStruct(name string, st *types.Struct) {
	var fs []DTField
	for i := 0; i < st.NumFields(); i++ {
		f := st.Field(i)
		fs = append(fs, DTField{Name: tm.fieldAccessor(name, f.Name(), i), Sort: tm.SortOf(f.Type())})
	}
	if len(fs) == 0 {
		fs = append(fs, DTField{Name: "unit_" + name, Sort: SBool})
	}
	tm.d.DeclareDT(&DataType{Name: name, Ctor: "mk_" + name, Fields: fs})
}

func (tm *TypeMap) fieldAccessor(sortName, field string, idx int) string {
	if field == "_" {
		field = fmt.Sprintf("blank%d", idx)
	}
	return "f_" + sortName + "_" + field
}

// structInfo returns the struct type and the named wrapper (possibly nil).
func structOf(t types.Type) (*types.Named, *types.Struct) {
	t = unalias(t)
	if n, ok := t.(*types.Named); ok {
		if st, ok := n.Underlying().(*types.Struct); ok {
			return n, st
		}
		return nil, nil
	}
	if st, ok := t.(*types.Struct); ok {
		return nil, st
	}
	return nil, nil
}

// isTransparentStruct says whether values of t are modelled as datatypes.
func (tm *TypeMap) isTransparentStruct(t types.Type) bool {
	n, st := structOf(t)
	if st == nil {
		return false
	}
	return structIsTransparent(n, st)
}

// FieldGet reads field i of a struct VALUE term.
func (tm *TypeMap) FieldGet(v *Term, t types.Type, i int) *Term {
	n, st := structOf(t)
	f := st.Field(i)
	fs := tm.SortOf(f.Type())
	if structIsTransparent(n, st) {
		return App(tm.fieldAccessor(v.Sort, f.Name(), i), fs, v)
	}
	// opaque struct: uninterpreted accessor
	fn := "ofld_" + v.Sort + "_" + f.Name()
	tm.d.Fun(fn, []string{v.Sort}, fs)
	return App(fn, fs, v)
}

// FieldSet returns a struct value with field i replaced.
func (tm *TypeMap) FieldSet(v *Term, t types.Type, i int, nv *Term) *Term {
	n, st := structOf(t)
	if !structIsTransparent(n, st) {
		// opaque: result is a fresh unknown value of that sort (over-approximation)
		return nil
	}
	args := make([]*Term, st.NumFields())
	for j := 0; j < st.NumFields(); j++ {
		if j == i {
			args[j] = nv
		} else {
			args[j] = tm.FieldGet(v, t, j)
		}
	}
	return App("mk_"+v.Sort, v.Sort, args...)
}

// canonStruct names a struct by the first named type seen with that
// underlying struct, so that `type B A` shares heaps and datatypes with A.
func (tm *TypeMap) canonStruct(n *types.Named, st *types.Struct) string {
	if s, ok := tm.structNames[st]; ok {
		return s
	}
	// prefer the type whose declaration owns the struct literal: for
	// `type B A`, A is found through B's declared RHS if available
	name := shortTypeName(n)
	tm.structNames[st] = name
	return name
}

type immutAcc struct{ acc, sort, structSort string }

// HeapName is the field heap for field f of pointer-accessed struct type t.
func (tm *TypeMap) HeapName(t types.Type, field string) string {
	t = unalias(t)
	if n, ok := t.(*types.Named); ok {
		if st, ok := n.Underlying().(*types.Struct); ok {
			cn := tm.canonStruct(n, st)
			if n.Obj() != nil && n.Obj().Pkg() != nil {
				if tm.immutableFields != nil && tm.immutableFields[n.Obj().Pkg().Path()+"."+n.Obj().Name()+"."+field] {
					tm.immutableHeaps["H."+cn+"."+field] = true
				}
				tm.heapPkg["H."+cn+"."] = n.Obj().Pkg()
				tm.heapPkg["HG."+shortTypeName(n)+"."] = n.Obj().Pkg()
			}
			// a field holding a struct BY VALUE (e.g. an embedded struct) whose
			// type declares immutable fields: those sub-fields survive every
			// havoc of this heap (see Unit.heapSet)
			hn := "H." + cn + "." + field
			if _, done := tm.valueImmut[hn]; !done && tm.immutableFields != nil {
				tm.valueImmut[hn] = nil
				for i := 0; i < st.NumFields(); i++ {
					if st.Field(i).Name() != field {
						continue
					}
					fn2, fst := structOf(st.Field(i).Type())
					if fn2 == nil || fst == nil || fn2.Obj() == nil || fn2.Obj().Pkg() == nil || !structIsTransparent(fn2, fst) {
						break
					}
					vs := tm.SortOf(st.Field(i).Type())
					for j := 0; j < fst.NumFields(); j++ {
						if tm.immutableFields[fn2.Obj().Pkg().Path()+"."+fn2.Obj().Name()+"."+fst.Field(j).Name()] {
							tm.valueImmut[hn] = append(tm.valueImmut[hn], immutAcc{tm.fieldAccessor(vs, fst.Field(j).Name(), j), tm.SortOf(fst.Field(j).Type()), vs})
						}
					}
				}
			}
			return hn
		}
	}
	return "H." + shortTypeName(t) + "." + field
}

// slice helpers
func (tm *TypeMap) SliceSort(elem types.Type) string { return tm.SortOf(types.NewSlice(elem)) }

func slArr(s *Term) *Term {
	es, _ := sliceElemSort(s.Sort)
	return App("arr_"+s.Sort, ArraySort(SInt, es), s)
}
func slLen(s *Term) *Term { return App("len_"+s.Sort, SInt, s) }
func slCap(s *Term) *Term { return App("cap_"+s.Sort, SInt, s) }
func slNil(s *Term) *Term { return App("nil_"+s.Sort, SBool, s) }
func mkSlice(srt string, arr, ln, cp, isnil *Term) *Term {
	return App("mk_"+srt, srt, arr, ln, cp, isnil)
}

var sliceElem = map[string]string{}

func sliceElemSort(sliceSort string) (string, bool) {
	e, ok := sliceElem[sliceSort]
	return e, ok
}

func (tm *TypeMap) registerSlice(t *types.Slice) string {
	s := tm.SortOf(t)
	sliceElem[s] = tm.SortOf(t.Elem())
	return s
}

// Zero returns the zero value of type t.
func (tm *TypeMap) Zero(t types.Type) *Term {
	t = unalias(t)
	srt := tm.SortOf(t)
	switch srt {
	case SInt:
		return IntLit(0)
	case SBool:
		return False
	case SStr:
		return tm.StrLit("")
	case SF64:
		return tm.d.Const("f64_zero", SF64)
	}
	switch u := t.Underlying().(type) {
	case *types.Slice:
		tm.registerSlice(u)
		es := tm.SortOf(u.Elem())
		return mkSlice(srt, tm.d.Const("zarr_"+sanitize(es), ArraySort(SInt, es)), IntLit(0), IntLit(0), True)
	case *types.Array:
		es := tm.SortOf(u.Elem())
		// constant array of zero
		return tm.constArray(es, tm.Zero(u.Elem()))
	case *types.Struct:
		if tm.isTransparentStruct(t) {
			args := make([]*Term, 0, u.NumFields())
			for i := 0; i < u.NumFields(); i++ {
				args = append(args, tm.Zero(u.Field(i).Type()))
			}
			if len(args) == 0 {
				args = append(args, True)
			}
			return App("mk_"+srt, srt, args...)
		}
	}
	return tm.d.Const("zero_"+sanitize(srt), srt)
}

func (tm *TypeMap) constArray(elemSort string, v *Term) *Term {
	return App("(as const "+ArraySort(SInt, elemSort)+")", ArraySort(SInt, elemSort), v)
}

// string literals: distinct constants with known length
var strLits = map[string]*Term{}
var strLitOrder []string

func (tm *TypeMap) StrLit(s string) *Term {
	if t, ok := strLits[s]; ok {
		return t
	}
	name := fmt.Sprintf("strlit_%d", len(strLits))
	if s == "" {
		name = "str_empty"
	}
	t := tm.d.Const(name, SStr)
	strLits[s] = t
	strLitOrder = append(strLitOrder, s)
	tm.d.Fun("slen", []string{SStr}, SInt)
	tm.d.AddAxiom("slen_"+name, Eq(App("slen", SInt, t), IntLit(int64(len(s)))))
	return t
}

func isUnsigned(t types.Type) bool {
	b, ok := unalias(t).Underlying().(*types.Basic)
	return ok && b.Info()&types.IsUnsigned != 0
}

// intRange returns bounds for sized integer types (ok=false for int/int64/uint64 upper).
func intRange(t types.Type) (lo, hi string, ok bool) {
	b, isb := unalias(t).Underlying().(*types.Basic)
	if !isb {
		return
	}
	switch b.Kind() {
	case types.Uint8:
		return "0", "255", true
	case types.Uint16:
		return "0", "65535", true
	case types.Uint32:
		return "0", "4294967295", true
	case types.Uint64, types.Uint, types.Uintptr:
		return "0", "18446744073709551615", true
	case types.Int8:
		return "-128", "127", true
	case types.Int16:
		return "-32768", "32767", true
	case types.Int32:
		return "-2147483648", "2147483647", true
	case types.Int64, types.Int:
		return "-9223372036854775808", "9223372036854775807", true
	}
	return
}
