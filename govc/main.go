package main

import (
	"golang.org/x/tools/go/packages"
	"os/exec"
	"encoding/json"
	"flag"
	"fmt"
	"os"
	"path/filepath"
	"regexp"
	"sort"
	"strconv"
	"strings"
	"time"
)

const verifDir = "/verif"
// repoDir: the tree under verification. The registered checks always use /repo;
// GOVC_REPO / GOVC_OUT exist only so that the seeded-change runner can work on
// several scratch copies in parallel (tools/run_all_seeded_par.sh).
var repoDir = envOr("GOVC_REPO", "/repo")
var outDir = envOr("GOVC_OUT", verifDir)

func envOr(k, def string) string {
	if v := os.Getenv(k); v != "" {
		return v
	}
	return def
}

type UnitCfg struct {
	Key   string `json:"key"`   // full function key, or key+"$litN"
	Sweep bool   `json:"sweep"` // also emit zero-annotation safety obligations
}

type SweepCfg struct {
	Pkg     string   `json:"pkg"`   // import path
	Files   []string `json:"files"` // base names
	Exclude []string `json:"exclude"`
	Only    []string `json:"only"`
	Lits    bool     `json:"lits"` // also sweep func literals as separate units
}

type PropCfg struct {
	ID        string     `json:"id"`
	Packages  []string   `json:"packages"`
	SpecPkgs  []string   `json:"spec_pkgs"` // every contract in these packages is a unit
	Units     []UnitCfg  `json:"units"`
	Sweeps    []SweepCfg `json:"sweeps"`
	Lemmas    []string   `json:"lemmas"`
	Undecided []string   `json:"undecided_clauses"`
	Trusted   []string   `json:"trusted_base"`
	Structural []string  `json:"structural"` // names of structural (static) checks to run
	NoAnchorFiles bool `json:"no_anchor_files"`
	Bounded   *BoundedCfg `json:"bounded"`   // bounded stand-in (never counted as proved)
	GoLedger  bool       `json:"go_ledger"` // every go statement of a unit must be acknowledged by its contract
}

// BoundedCfg: an executable-contract harness injected into a package of /repo
// with `go test -overlay` (nothing is written to /repo).
type BoundedCfg struct {
	Pkg   string `json:"pkg"`   // package directory relative to /repo
	File  string `json:"file"`  // harness file relative to /verif
	Run   string `json:"run"`   // test name
	Bound string `json:"bound"` // the stated bound
}

type boundedResult struct {
	OK     map[string]int
	Fails  []string
	Output string
	Err    string
}

func runBounded(b *BoundedCfg, tier string) boundedResult {
	res := boundedResult{OK: map[string]int{}}
	ov, err := os.CreateTemp("", "govc-ov-*.json")
	if err != nil {
		res.Err = err.Error()
		return res
	}
	defer os.Remove(ov.Name())
	dst := filepath.Join(repoDir, b.Pkg, "zz_verif_bounded_test.go")
	fmt.Fprintf(ov, `{"Replace":{%q:%q}}`, dst, filepath.Join(verifDir, b.File))
	ov.Close()
	cmd := exec.Command("go", "test", "-overlay", ov.Name(), "-vet=off", "-count=1", "-timeout", "900s", "-v", "-run", "^"+b.Run+"$", "./"+b.Pkg)
	cmd.Dir = repoDir
	cmd.Env = append(os.Environ(), "VERIF_TIER="+tier)
	out, err := cmd.CombinedOutput()
	res.Output = string(out)
	for _, ln := range strings.Split(res.Output, "\n") {
		ln = strings.TrimSpace(ln)
		if strings.HasPrefix(ln, "BOUNDED-OK ") {
			f := strings.Fields(ln)
			n := 0
			if len(f) >= 3 {
				fmt.Sscanf(strings.TrimPrefix(f[2], "cases="), "%d", &n)
			}
			res.OK[f[1]] = n
		} else if strings.HasPrefix(ln, "BOUNDED-FAIL ") {
			res.Fails = append(res.Fails, strings.TrimPrefix(ln, "BOUNDED-FAIL "))
		}
	}
	if err != nil && len(res.Fails) == 0 {
		res.Err = "bounded harness did not run to completion: " + err.Error() + "\n" + clip(res.Output, 2000)
	}
	if err == nil && len(res.OK) == 0 {
		res.Err = "bounded harness produced no result lines"
	}
	return res
}

type KnownFinding struct {
	Property   string `json:"property"`
	Obligation string `json:"obligation"` // regexp on obligation name
	Contains   string `json:"contains"`   // substring of description/position-independent text
	What       string `json:"what"`
	Status     string `json:"status"` // "open" or "fixed"
	Commit     string `json:"commit,omitempty"`
}

func fatal(format string, args ...any) {
	fmt.Fprintf(os.Stderr, "govc: "+format+"\n", args...)
	os.Exit(2)
}

func main() {
	if len(os.Args) < 2 {
		fatal("usage: govc check <ID> <quick|thorough> | govc unit <key> | govc list <pkg>")
	}
	switch os.Args[1] {
	case "check":
		os.Exit(cmdCheck(os.Args[2:]))
	case "unit":
		os.Exit(cmdUnit(os.Args[2:]))
	case "list":
		cmdList(os.Args[2:])
	default:
		fatal("unknown command %s", os.Args[1])
	}
}

func loadAll(patterns []string) *Engine {
	e, err := LoadEngine(repoDir, patterns)
	if err != nil {
		fatal("load: %v", err)
	}
	db := NewSpecDB()
	db.LoadRepoSpecs(e)
	db.LoadExternDir(filepath.Join(verifDir, "extern"))
	e.specs = db
	e.tm.immutableFields = db.ImmutableFields
	return e
}

func cmdList(args []string) {
	e := loadAll(args)
	var keys []string
	for k := range e.byKey {
		keys = append(keys, k)
	}
	sort.Strings(keys)
	for _, k := range keys {
		fi := e.byKey[k]
		fmt.Printf("%s\t%s\tlits=%d\n", k, e.fset.Position(fi.Decl.Pos()), countFuncLits(fi.Decl))
	}
}

var litRe = regexp.MustCompile(`^(.*)\$lit(\d+)$`)

func (e *Engine) target(key string, sweep bool) (unitTarget, error) {
	t := unitTarget{sweep: sweep, name: shortKey(key)}
	fkey := key
	litN := -1
	if m := litRe.FindStringSubmatch(key); m != nil {
		fkey = m[1]
		litN, _ = strconv.Atoi(m[2])
	}
	fi := e.byKey[fkey]
	if fi == nil {
		return t, fmt.Errorf("function %s not found (CONTRACT-STALE)", fkey)
	}
	t.fi = fi
	t.spec = e.specs.Funcs[key]
	if litN >= 0 {
		t.lit = nthFuncLit(fi.Decl, litN)
		t.litN = litN
		if t.lit == nil {
			return t, fmt.Errorf("literal %d of %s not found (CONTRACT-STALE)", litN, fkey)
		}
	}
	return t, nil
}

func cmdUnit(args []string) int {
	fs := flag.NewFlagSet("unit", flag.ExitOnError)
	sweep := fs.Bool("sweep", false, "emit safety obligations")
	keep := fs.String("keep", "", "directory to keep SMT scripts")
	pk := fs.String("pkgs", "./...", "comma separated package patterns")
	timeout := fs.Int("t", 10, "solver timeout (s)")
	verbose := fs.Bool("v", false, "verbose")
	debug := fs.Bool("debug", false, "panic on engine errors")
	fs.Parse(args)
	e := loadAll(strings.Split(*pk, ","))
	e.debug = *debug
	if errs := e.InstallAxioms(); len(errs) > 0 {
		for _, m := range errs {
			fmt.Println("AXIOM-ERROR", m)
		}
	}
	for _, m := range e.specs.Errors {
		fmt.Println("SPEC-ERROR", m)
	}
	rc := 0
	for _, key := range fs.Args() {
		var u *Unit
		if strings.HasPrefix(key, "lemma:") {
			var l *LemmaSpec
			for _, x := range e.specs.Lemmas {
				if x.Name == strings.TrimPrefix(key, "lemma:") {
					l = x
				}
			}
			if l == nil {
				fmt.Println("no such lemma", key)
				rc = 1
				continue
			}
			u = e.VerifyLemma(l)
		} else {
			if !strings.Contains(key, "/") && !strings.HasPrefix(key, "(") {
				// convenience: match by suffix
				norm := func(s string) string { return strings.NewReplacer("(", "", ")", "", "*", "").Replace(s) }
				lit := ""
				if m := litRe.FindStringSubmatch(key); m != nil {
					key, lit = m[1], "$lit"+m[2]
				}
				for k := range e.byKey {
					if strings.HasSuffix(norm(k), "."+key) || strings.HasSuffix(norm(k), "/"+key) {
						key = k
					}
				}
				key += lit
			}
			t, err := e.target(key, *sweep)
			if err != nil {
				fmt.Println(err)
				rc = 1
				continue
			}
			u = e.VerifyFunc(t)
		}
		e.Discharge(u.obls, *timeout, 12, *keep)
		nd := 0
		for _, ob := range u.obls {
			if ob.Discharged() {
				nd++
			}
			if *verbose || !ob.Discharged() {
				fmt.Printf("%-12s %-60s %s %s (%.2fs %s)\n", ob.Status, ob.Name, ob.Pos, ob.Desc, ob.TimeS, ob.Solver)
				if !ob.Discharged() && *verbose {
					fmt.Println(trimModel(ob.Model, 60))
				}
			}
		}
		fmt.Printf("unit %s: %d/%d discharged, %d returns, %d states\n", u.name, nd, len(u.obls), u.nreturns, u.nstates)
		for _, m := range u.unsupported {
			fmt.Println("  UNSUPPORTED", m)
		}
		for _, m := range u.specErrors {
			fmt.Println("  SPEC-ERROR", m)
		}
		for _, m := range u.stale {
			fmt.Println("  CONTRACT-STALE", m)
		}
		if *verbose {
			var ab []string
			for k := range e.abstracted {
				ab = append(ab, k)
			}
			sort.Strings(ab)
			for _, k := range ab {
				fmt.Println("  abstracted:", k)
			}
		}
		if nd != len(u.obls) || len(u.unsupported) > 0 || len(u.specErrors) > 0 || len(u.stale) > 0 {
			rc = 1
		}
	}
	return rc
}

func trimModel(s string, lines int) string {
	ls := strings.Split(s, "\n")
	if len(ls) > lines {
		ls = append(ls[:lines], "...")
	}
	return strings.Join(ls, "\n")
}

// ---------------------------------------------------------------------------

type unitReport struct {
	Name        string   `json:"name"`
	Obligations int      `json:"obligations"`
	Discharged  int      `json:"discharged"`
	Contract    bool     `json:"under_contract"`
	Sweep       bool     `json:"sweep"`
	Unsupported []string `json:"unsupported,omitempty"`
	Stale       []string `json:"stale,omitempty"`
}

func cmdCheck(args []string) int {
	if len(args) < 1 {
		fatal("check <ID> [quick|thorough]")
	}
	id := args[0]
	tier := "quick"
	if len(args) > 1 {
		tier = args[1]
	}
	start := time.Now()
	seed := int64(0)
	if s := os.Getenv("VERIF_SEED"); s != "" {
		seed, _ = strconv.ParseInt(s, 10, 64)
	}
	var cfg PropCfg
	b, err := os.ReadFile(filepath.Join(verifDir, "props", id+".json"))
	if err != nil {
		fatal("%v", err)
	}
	if err := json.Unmarshal(b, &cfg); err != nil {
		fatal("props/%s.json: %v", id, err)
	}
	var known []KnownFinding
	if kb, err := os.ReadFile(filepath.Join(verifDir, "known_findings.json")); err == nil {
		if err := json.Unmarshal(kb, &known); err != nil {
			fatal("known_findings.json: %v", err)
		}
	}
	// The property's anchor files (properties.jsonl, given): every contract unit
	// declared in one of them runs under this property too, whatever its props
	// tags say - a change there can break the property even when the contract
	// was written with another property in mind.
	anchorFiles := map[string]bool{}
	if pb, err := os.ReadFile(filepath.Join(verifDir, "properties.jsonl")); err == nil {
		for _, ln := range strings.Split(string(pb), "\n") {
			var pr struct {
				ID      string `json:"id"`
				Anchors struct {
					Files []string `json:"files"`
				} `json:"anchors"`
			}
			if json.Unmarshal([]byte(ln), &pr) == nil && pr.ID == id {
				for _, f := range pr.Anchors.Files {
					if strings.HasSuffix(f, ".go") && !cfg.NoAnchorFiles {
						anchorFiles[filepath.Clean(f)] = true
						dir := "./" + filepath.Dir(f)
						if dir == "./." {
							dir = "."
						}
						have := false
						for _, p := range cfg.Packages {
							if p == dir {
								have = true
							}
						}
						if !have {
							cfg.Packages = append(cfg.Packages, dir)
						}
					}
				}
			}
		}
	}
	e := loadAll(cfg.Packages)
	e.goLedgerOn = cfg.GoLedger
	// proof obligations: 30 s (quick) / 90 s (thorough); almost all discharge in
	// well under a second, the margin is for the few that only one solver decides
	// (seconds) when the machine is loaded. Vacuity canaries are capped at 10 s.
	timeout := 30
	if tier == "thorough" {
		timeout = 90
	}
	axErrs := e.InstallAxioms()

	var units []*Unit
	var reports []unitReport
	var problems []string // engine-level failures (stale contracts, spec errors)
	problems = append(problems, e.specs.Errors...)
	problems = append(problems, axErrs...)

	seen := map[string]bool{}
	addUnit := func(key string, sweep bool) {
		if seen[key] {
			return
		}
		seen[key] = true
		t, err := e.target(key, sweep)
		if err != nil {
			problems = append(problems, err.Error())
			return
		}
		u := e.VerifyFunc(t)
		units = append(units, u)
	}
	for _, uc := range cfg.Units {
		addUnit(uc.Key, uc.Sweep)
	}
	var specKeys, anchorKeys []string
	// module packages imported (transitively) by the packages of the anchor files
	depPkgs := map[string]bool{}
	if !cfg.NoAnchorFiles {
		var walk func(p *packages.Package)
		walk = func(p *packages.Package) {
			for _, ip := range p.Imports {
				if ip.Module == nil || ip.Module.Path != modulePath || depPkgs[ip.PkgPath] {
					continue
				}
				depPkgs[ip.PkgPath] = true
				walk(ip)
			}
		}
		for f := range anchorFiles {
			dir := filepath.Dir(f)
			pp := modulePath
			if dir != "." {
				pp = modulePath + "/" + filepath.ToSlash(dir)
			}
			if p := e.pkgs[pp]; p != nil {
				walk(p)
			}
		}
	}
	for k, fs := range e.specs.Funcs {
		if fs.Trusted {
			continue
		}
		for _, sp := range cfg.SpecPkgs {
			if fs.PkgPath == sp {
				specKeys = append(specKeys, k)
			}
		}
		for _, pl := range fs.Extra["props"] {
			for _, p := range strings.Fields(pl) {
				if p == id {
					specKeys = append(specKeys, k)
				}
			}
		}
		if len(anchorFiles) > 0 && len(fs.Extra["props"]) > 0 {
			if fi := e.byKey[strings.SplitN(k, "$lit", 2)[0]]; fi != nil && fi.Decl != nil {
				if rel, err := filepath.Rel(repoDir, e.fset.Position(fi.Decl.Pos()).Filename); err == nil && anchorFiles[filepath.Clean(rel)] {
					anchorKeys = append(anchorKeys, k)
				} else if depPkgs[fi.Pkg.PkgPath] {
					// a package of this module that the anchor files' packages
					// import (transitively): the property's code runs through it
					anchorKeys = append(anchorKeys, k)
				}
			}
		}
	}
	sort.Strings(specKeys)
	for _, k := range specKeys {
		if strings.Contains(k, "$role:") {
			continue
		}
		addUnit(k, true)
	}
	// units pulled in by the anchor files only: their contract obligations, but
	// neither the zero-annotation safety sweep nor the goroutine ledger (both
	// are claimed only where a unit is tagged with the property)
	sort.Strings(anchorKeys)
	e.goLedgerOn = false
	for _, k := range anchorKeys {
		if strings.Contains(k, "$role:") {
			continue
		}
		addUnit(k, false)
	}
	e.goLedgerOn = cfg.GoLedger
	for _, sw := range cfg.Sweeps {
		var keys []string
		for k, fi := range e.byKey {
			if fi.Pkg.PkgPath != sw.Pkg || fi.Decl.Body == nil {
				continue
			}
			base := filepath.Base(e.fset.Position(fi.Decl.Pos()).Filename)
			okFile := len(sw.Files) == 0
			for _, f := range sw.Files {
				if f == base {
					okFile = true
				}
			}
			if !okFile || strings.HasSuffix(base, "_test.go") {
				continue
			}
			skip := false
			for _, x := range sw.Exclude {
				if strings.HasSuffix(k, x) {
					skip = true
				}
			}
			if len(sw.Only) > 0 {
				skip = true
				for _, x := range sw.Only {
					if strings.HasSuffix(k, x) {
						skip = false
					}
				}
			}
			if !skip {
				keys = append(keys, k)
			}
		}
		sort.Strings(keys)
		for _, k := range keys {
			addUnit(k, true)
			if sw.Lits {
				n := countFuncLits(e.byKey[k].Decl)
				for i := 0; i < n; i++ {
					addUnit(fmt.Sprintf("%s$lit%d", k, i), true)
				}
			}
		}
	}
	for _, ln := range cfg.Lemmas {
		found := false
		for _, l := range e.specs.Lemmas {
			if l.Name == ln {
				units = append(units, e.VerifyLemma(l))
				found = true
			}
		}
		if !found {
			problems = append(problems, "lemma "+ln+" not found (CONTRACT-STALE)")
		}
	}
	structural := e.RunStructural(cfg.Structural)
	if structural != nil {
		units = append(units, structural)
	}

	var all []*Obligation
	for _, u := range units {
		all = append(all, u.obls...)
	}
	e.Discharge(all, timeout, 10, os.Getenv("GOVC_KEEP"))
	if os.Getenv("GOVC_SLOW") != "" {
		// diagnostic only: which obligations needed more than 5 s
		for _, ob := range all {
			if ob.TimeS > 5 && ob.Kind != "vacuity" {
				fmt.Fprintf(os.Stderr, "SLOW %.1fs %s %s [%s]\n", ob.TimeS, ob.Name, ob.Solver, ob.Status)
			}
		}
	}

	// collect
	perSolver := map[string]int{}
	solverTime := 0.0
	nObl, nDis := 0, 0
	var failed []*Obligation
	var knownHit []string
	var samples []map[string]any
	fnContract, fnProved := []string{}, []string{}
	for _, u := range units {
		r := unitReport{Name: u.name, Contract: u.spec != nil, Sweep: u.sweep, Unsupported: u.unsupported, Stale: u.stale}
		ok := true
		for _, m := range u.unsupported {
			problems = append(problems, "UNSUPPORTED "+u.name+": "+m)
			ok = false
		}
		for _, m := range u.specErrors {
			problems = append(problems, "SPEC-ERROR "+u.name+": "+m)
			ok = false
		}
		for _, m := range u.stale {
			problems = append(problems, "CONTRACT-STALE "+u.name+": "+m)
			ok = false
		}
		for _, ob := range u.obls {
			r.Obligations++
			solverTime += ob.TimeS
			if ob.Discharged() {
				r.Discharged++
				s := ob.Solver
				if s == "" {
					s = "engine:" + ob.Status
				}
				perSolver[s]++
				if len(samples) < 12 && ob.Goal != nil && (ob.Kind == "post" || ob.Kind == "inv.step" || ob.Kind == "pre" || ob.Kind == "lemma") {
					samples = append(samples, map[string]any{"obligation": ob.Name, "at": ob.Pos, "what": ob.Desc, "goal": clip(ob.Goal.String(), 400), "hypotheses": len(ob.Assumes), "status": ob.Status, "solver": s})
				}
			} else {
				ok = false
				if kf := matchKnown(known, id, ob); kf != nil {
					knownHit = append(knownHit, fmt.Sprintf("KNOWN-FINDING: property=%s %s [%s]", id, kf.What, ob.Name))
					r.Obligations--
					continue
				}
				failed = append(failed, ob)
			}
		}
		nObl += r.Obligations
		nDis += r.Discharged
		if u.spec != nil {
			fnContract = append(fnContract, u.name)
			if ok {
				fnProved = append(fnProved, u.name)
			}
		}
		reports = append(reports, r)
	}
	if len(samples) == 0 {
		for _, ob := range all {
			if ob.Discharged() && len(samples) < 8 {
				g := ""
				if ob.Goal != nil {
					g = clip(ob.Goal.String(), 300)
				}
				samples = append(samples, map[string]any{"obligation": ob.Name, "at": ob.Pos, "what": ob.Desc, "goal": g, "status": ob.Status})
			}
		}
	}

	violations := 0
	replayDir := filepath.Join(outDir, "replays", id)
	os.MkdirAll(replayDir, 0o755)
	sort.Strings(knownHit)
	for _, k := range dedup(knownHit) {
		fmt.Println(k)
	}
	for _, ob := range failed {
		violations++
		path := filepath.Join(replayDir, sanitize(ob.Name)+".txt")
		writeReplay(path, id, ob)
		suffix := " no-failing-input-found"
		if rp := e.TryReplay(id, ob, replayDir); rp != "" {
			path = rp
			suffix = ""
		}
		fmt.Printf("FAILED-OBLIGATION %s [%s] at %s: %s\n", ob.Name, ob.Status, ob.Pos, ob.Desc)
		fmt.Printf("VIOLATION property=%s replay=%s%s\n", id, path, suffix)
	}
	for i, p := range dedup(problems) {
		violations++
		path := filepath.Join(replayDir, fmt.Sprintf("engine-problem-%d.txt", i))
		os.WriteFile(path, []byte("obligation: contract binding / translation\n"+p+"\n"), 0o644)
		fmt.Printf("FAILED-OBLIGATION %s\n", p)
		fmt.Printf("VIOLATION property=%s replay=%s no-failing-input-found\n", id, path)
	}
	var bres *boundedResult
	if cfg.Bounded != nil {
		r := runBounded(cfg.Bounded, tier)
		bres = &r
		for i, f := range r.Fails {
			violations++
			path := filepath.Join(replayDir, fmt.Sprintf("bounded-%d.txt", i))
			os.WriteFile(path, []byte("bounded check (executable contract over an enumerated domain): failing input\n"+f+"\nre-run: cd /repo && go test -overlay <overlay mapping "+cfg.Bounded.Pkg+"/zz_verif_bounded_test.go to /verif/"+cfg.Bounded.File+"> -vet=off -run "+cfg.Bounded.Run+" ./"+cfg.Bounded.Pkg+"\n"), 0o644)
			fmt.Printf("FAILED-BOUNDED %s\n", clip(f, 300))
			fmt.Printf("VIOLATION property=%s replay=%s\n", id, path)
		}
		if r.Err != "" {
			violations++
			path := filepath.Join(replayDir, "bounded-error.txt")
			os.WriteFile(path, []byte(r.Err+"\n"), 0o644)
			fmt.Printf("FAILED-BOUNDED %s\n", clip(r.Err, 300))
			fmt.Printf("VIOLATION property=%s replay=%s no-failing-input-found\n", id, path)
		}
	}
	if nObl == 0 {
		violations++
		fmt.Printf("VIOLATION property=%s replay=%s no-failing-input-found\n", id, filepath.Join(replayDir, "no-obligations.txt"))
		os.WriteFile(filepath.Join(replayDir, "no-obligations.txt"), []byte("vacuity: zero obligations generated\n"), 0o644)
	}

	// evidence
	var abstracted, externs []string
	for k := range e.abstracted {
		abstracted = append(abstracted, k)
	}
	for k := range e.externUsed {
		externs = append(externs, k)
	}
	sort.Strings(abstracted)
	sort.Strings(externs)
	trusted := append([]string{
		"govc (this VC generator: its Go semantics and contract binding)",
		"SMT solvers z3 4.8.12, z3-new 5.1.0, cvc5 1.0.3",
		"go/types, go/packages (x/tools v0.50.0)",
		"machine integers treated as mathematical integers (explicit wrap only at narrowing conversions)",
		"slices have value semantics (no aliasing between slices sharing a backing array)",
		"method receivers and pointer parameters not compared with nil are non-nil; fields never compared with nil in the module are non-nil",
		"state not declared guarded_by is not subject to interference from other goroutines",
		"calls into dependencies change repository state only through their arguments (all repository state is forgotten when a func value is passed to a dependency)",
		"a callee cannot write fields of struct types its package cannot (transitively) name; callbacks stored earlier in dependencies/other packages are not followed",
		"interfaces do not hold typed-nil pointers (successful type assertions to pointer types yield non-nil)",
	}, cfg.Trusted...)
	var assumptions []string
	for _, x := range externs {
		assumptions = append(assumptions, "extern contract (assumed): "+x)
	}
	for _, a := range e.axiomNames {
		assumptions = append(assumptions, "axiom (assumed): "+a)
	}
	for _, u := range units {
		for _, a := range u.assumesUsed {
			assumptions = append(assumptions, "ghost assume in "+u.name+": "+a)
		}
	}
	for k, m := range e.specs.PkgModes {
		assumptions = append(assumptions, fmt.Sprintf("package %s treated as %s", k, m))
	}
	sort.Strings(assumptions)
	ev := map[string]any{
		"property_id": id,
		"tier":        tier,
		"seed":        seed,
		"level":       "proof",
		"coverage": map[string]any{
			"obligations":              nObl,
			"discharged":               nDis,
			"checker_cmd":              fmt.Sprintf("/verif/bin/govc check %s %s", id, tier),
			"trusted_base":             trusted,
			"samples":                  samples,
			"functions_under_contract": fnContract,
			"functions_proved":         fnProved,
			"units":                    reports,
			"per_backend":              perSolver,
			"solver_time_s":            round2(solverTime),
			"abstracted_calls":         abstracted,
			"undecided_clauses":        cfg.Undecided,
			"known_findings":           dedup(knownHit),
			"solver_timeout_s":         timeout,
		},
		"assumptions": assumptions,
		"wall_s":      round2(time.Since(start).Seconds()),
		"violations":  violations,
	}
	if bres != nil {
		// a property with a bounded stand-in is NOT a proof-level claim
		total := 0
		var fnames []string
		for f, n := range bres.OK {
			total += n
			fnames = append(fnames, fmt.Sprintf("%s: %d cases", f, n))
		}
		sort.Strings(fnames)
		cov := ev["coverage"].(map[string]any)
		ev["level"] = "exploration"
		cov["evaluations"] = total
		cov["distinct_nontrivial"] = total
		cov["rule"] = "bounded stand-in (NOT proof): " + cfg.Bounded.Bound + "; each case is a distinct input tuple of the enumeration (no duplicates by construction); the deductive obligations listed under obligations/discharged cover only the functions named in functions_proved"
		cov["exhaustive"] = len(bres.Fails) == 0 && bres.Err == ""
		cov["bounded_functions"] = fnames
		cov["bounded_failures"] = bres.Fails
		var bs []any
		for _, f := range fnames {
			bs = append(bs, "bounded: "+f)
		}
		if sm, ok := cov["samples"].([]map[string]any); ok {
			for _, x := range sm {
				bs = append(bs, x)
			}
		}
		cov["samples"] = bs
	}
	os.MkdirAll(filepath.Join(outDir, "evidence"), 0o755)
	eb, _ := json.MarshalIndent(ev, "", " ")
	if err := os.WriteFile(filepath.Join(outDir, "evidence", id+".json"), eb, 0o644); err != nil {
		fatal("evidence: %v", err)
	}
	fmt.Printf("%s %s: %d units, %d/%d obligations discharged, %d known findings, %d violations, %.1fs\n", id, tier, len(units), nDis, nObl, len(dedup(knownHit)), violations, time.Since(start).Seconds())
	if violations > 0 {
		return 1
	}
	return 0
}

func clip(s string, n int) string {
	if len(s) > n {
		return s[:n] + "..."
	}
	return s
}

func round2(f float64) float64 { return float64(int(f*100)) / 100 }

func dedup(in []string) []string {
	seen := map[string]bool{}
	var out []string
	for _, s := range in {
		if !seen[s] {
			seen[s] = true
			out = append(out, s)
		}
	}
	return out
}

func matchKnown(known []KnownFinding, id string, ob *Obligation) *KnownFinding {
	for i := range known {
		k := &known[i]
		if k.Property != id || k.Status == "fixed" {
			continue
		}
		if ok, _ := regexp.MatchString(k.Obligation, ob.Name); !ok {
			continue
		}
		if k.Contains != "" && !strings.Contains(ob.Desc, k.Contains) {
			continue
		}
		return k
	}
	return nil
}

func writeReplay(path, id string, ob *Obligation) {
	var sb strings.Builder
	fmt.Fprintf(&sb, "property: %s\nobligation: %s\nkind: %s\nat: %s\nwhat: %s\nstatus: %s (solver %s, %.2fs)\n", id, ob.Name, ob.Kind, ob.Pos, ob.Desc, ob.Status, ob.Solver, ob.TimeS)
	if ob.Goal != nil {
		fmt.Fprintf(&sb, "goal: %s\n", clip(ob.Goal.String(), 4000))
	}
	fmt.Fprintf(&sb, "\n--- solver output ---\n%s\n", trimModel(ob.Model, 400))
	if ob.Script != "" {
		sp := strings.TrimSuffix(path, ".txt") + ".smt2"
		os.WriteFile(sp, []byte(ob.Script), 0o644)
		fmt.Fprintf(&sb, "\nscript: %s\n", sp)
	}
	os.WriteFile(path, []byte(sb.String()), 0o644)
}
