package main

import (
	"go/ast"
	"go/token"
	"go/types"
)

// Confined local maps.
//
// A local variable of the unit's function that is initialised by make(map…)
// or a map literal, never reassigned, and only ever used as the operand of an
// index expression, len, delete, clear or range holds the ONLY reference to
// its map object: the reference is never copied, passed, stored, returned or
// sent. The object can then be reached by other code only through a function
// literal that mentions the variable (directly, or through a local function
// variable bound to such a literal). Until the first of those literals
// escapes - is passed, stored, returned, started with `go`, or used in any
// way other than being called in place - no callee can read or write the map,
// so an unknown call (`modifies *`) made before that point leaves it alone.
//
// confinedMaps returns, per such variable, the source position from which the
// protection ends (token.NoPos: never). An escape inside a loop ends the
// protection from the start of the outermost enclosing loop; an escape inside
// a function literal from the creation of that literal (or its outermost loop).
func confinedMaps(info *types.Info, body *ast.BlockStmt) map[*types.Var]token.Pos {
	out := map[*types.Var]token.Pos{}
	if body == nil {
		return out
	}
	// parents
	parent := map[ast.Node]ast.Node{}
	var stack []ast.Node
	ast.Inspect(body, func(n ast.Node) bool {
		if n == nil {
			stack = stack[:len(stack)-1]
			return true
		}
		if len(stack) > 0 {
			parent[n] = stack[len(stack)-1]
		}
		stack = append(stack, n)
		return true
	})
	isMapInit := func(e ast.Expr) bool {
		switch x := ast.Unparen(e).(type) {
		case *ast.CallExpr:
			if id, ok := ast.Unparen(x.Fun).(*ast.Ident); ok {
				if b, ok := info.Uses[id].(*types.Builtin); ok && b.Name() == "make" {
					return true
				}
			}
		case *ast.CompositeLit:
			return true
		}
		return false
	}
	// candidates and local function variables bound to a literal
	cands := map[*types.Var]bool{}
	litVar := map[*types.Var]*ast.FuncLit{}
	ast.Inspect(body, func(n ast.Node) bool {
		as, ok := n.(*ast.AssignStmt)
		if !ok || as.Tok != token.DEFINE || len(as.Lhs) != len(as.Rhs) {
			return true
		}
		for i, l := range as.Lhs {
			id, ok := l.(*ast.Ident)
			if !ok {
				continue
			}
			v, ok := info.Defs[id].(*types.Var)
			if !ok {
				continue
			}
			if _, isMap := unalias(v.Type()).Underlying().(*types.Map); isMap && isMapInit(as.Rhs[i]) {
				cands[v] = true
			}
			if fl, ok := ast.Unparen(as.Rhs[i]).(*ast.FuncLit); ok {
				litVar[v] = fl
			}
		}
		return true
	})
	if len(cands) == 0 {
		return out
	}
	// every use of a candidate must be confined; a local function variable
	// must never be reassigned
	uses := map[*types.Var][]*ast.Ident{}
	ast.Inspect(body, func(n ast.Node) bool {
		id, ok := n.(*ast.Ident)
		if !ok {
			return true
		}
		if v, ok := info.Uses[id].(*types.Var); ok {
			uses[v] = append(uses[v], id)
		}
		return true
	})
	assigned := func(id *ast.Ident) bool {
		switch p := parent[id].(type) {
		case *ast.AssignStmt:
			for _, l := range p.Lhs {
				if l == ast.Expr(id) {
					return true
				}
			}
		case *ast.UnaryExpr:
			return p.Op == token.AND
		case *ast.IncDecStmt:
			return true
		case *ast.RangeStmt:
			return p.Key == ast.Expr(id) || p.Value == ast.Expr(id)
		}
		return false
	}
	for v := range litVar {
		for _, id := range uses[v] {
			if assigned(id) {
				delete(litVar, v)
				break
			}
		}
	}
	confinedUse := func(id *ast.Ident) bool {
		switch p := parent[id].(type) {
		case *ast.IndexExpr:
			return p.X == ast.Expr(id)
		case *ast.RangeStmt:
			return p.X == ast.Expr(id)
		case *ast.CallExpr:
			if f, ok := ast.Unparen(p.Fun).(*ast.Ident); ok {
				if b, ok := info.Uses[f].(*types.Builtin); ok && len(p.Args) > 0 && p.Args[0] == ast.Expr(id) {
					switch b.Name() {
					case "len", "delete", "clear":
						return true
					}
				}
			}
		}
		return false
	}
	enclosingLit := func(n ast.Node) *ast.FuncLit {
		for p := parent[n]; p != nil; p = parent[p] {
			if fl, ok := p.(*ast.FuncLit); ok {
				return fl
			}
		}
		return nil
	}
	// position from which an escape at node n takes effect
	effective := func(n ast.Node) token.Pos {
		pos := n.Pos()
		for p := parent[n]; p != nil; p = parent[p] {
			switch p.(type) {
			case *ast.ForStmt, *ast.RangeStmt, *ast.FuncLit:
				pos = p.Pos()
			case *ast.LabeledStmt:
				pos = p.Pos() // goto targets: be conservative
			}
		}
		return pos
	}
	hasGoto := false
	ast.Inspect(body, func(n ast.Node) bool {
		if b, ok := n.(*ast.BranchStmt); ok && b.Tok == token.GOTO {
			hasGoto = true
		}
		return true
	})
	if hasGoto {
		return out
	}
cand:
	for v := range cands {
		for _, id := range uses[v] {
			if !confinedUse(id) {
				continue cand
			}
		}
		// literals that can reach v
		reach := map[*ast.FuncLit]bool{}
		for _, id := range uses[v] {
			for fl := enclosingLit(id); fl != nil; fl = enclosingLit(fl) {
				reach[fl] = true
			}
		}
		for changed := true; changed; {
			changed = false
			for g, fl := range litVar {
				if !reach[fl] {
					continue
				}
				for _, id := range uses[g] {
					for l := enclosingLit(id); l != nil; l = enclosingLit(l) {
						if !reach[l] {
							reach[l] = true
							changed = true
						}
					}
				}
			}
		}
		esc := token.NoPos
		note := func(p token.Pos) {
			if esc == token.NoPos || p < esc {
				esc = p
			}
		}
		calledInPlace := func(e ast.Expr) bool {
			// e is the callee of a plain (not go) call
			n := ast.Node(e)
			for {
				pp, ok := parent[n].(*ast.ParenExpr)
				if !ok {
					break
				}
				n = pp
			}
			call, ok := parent[n].(*ast.CallExpr)
			if !ok || ast.Unparen(call.Fun) != ast.Unparen(e) {
				return false
			}
			if _, isGo := parent[call].(*ast.GoStmt); isGo {
				return false
			}
			return true
		}
		bound := map[*ast.FuncLit]*types.Var{}
		for g, fl := range litVar {
			bound[fl] = g
		}
		for fl := range reach {
			if g, ok := bound[fl]; ok {
				for _, id := range uses[g] {
					if !calledInPlace(id) {
						note(effective(id))
					}
				}
				continue
			}
			if !calledInPlace(fl) {
				note(effective(fl))
			}
		}
		out[v] = esc
	}
	return out
}

// confinedRefs: the map objects of the unit's function that no callee can
// reach at the current point of execution (see confinedMaps).
func (c *ExecCtx) confinedRefs(st *State) []Val {
	root := c
	for {
		if root.inDefer {
			return nil
		}
		if root.parent == nil {
			break
		}
		root = root.parent
	}
	if root.fn == nil && root.lit == nil {
		return nil
	}
	if !root.confinedDone {
		root.confinedDone = true
		var body *ast.BlockStmt
		if root.lit != nil {
			body = root.lit.Body
		} else if root.fn != nil && root.fn.Decl != nil {
			body = root.fn.Decl.Body
		}
		root.confined = confinedMaps(root.info, body)
	}
	var out []Val
	for v, esc := range root.confined {
		if esc != token.NoPos && !(root.curPos != token.NoPos && root.curPos < esc) {
			continue
		}
		if root.curPos == token.NoPos || root.curPos < v.Pos() {
			continue // not declared yet
		}
		if _, ok := st.vars[v]; !ok {
			continue
		}
		c.u.eng.abstracted["confined local map "+v.Name()+" survives unknown calls until a literal using it escapes"] = true
		out = append(out, root.readVar(st, v))
	}
	return out
}
