package main

// Evaluation of specification expressions (Go expression syntax plus
// pseudo-builtins) and ghost statements.

import (
	"os"
	"fmt"
	"go/ast"
	"go/constant"
	"go/printer"
	"go/token"
	"go/types"
	"strconv"
	"strings"
)

func exprString(e ast.Expr) string {
	var sb strings.Builder
	printer.Fprint(&sb, token.NewFileSet(), e)
	return strings.ReplaceAll(sb.String(), "ʃ", "$")
}

type SpecEnv struct {
	c       *ExecCtx
	fs      *FuncSpec
	binds   map[string]Val
	fnObj   *types.Func
	pkgPath string
	scope   *types.Scope // innermost scope for local lookups (may be nil)
	midBody bool         // evaluated inside the body: parameter names mean current values
	pos     token.Pos
	nq      int
	where   string
	assuming bool // the formula being built will be assumed (not proved)
}

var ghostMapTypes = map[*types.Map]bool{}

func (env *SpecEnv) u() *Unit { return env.c.u }

func (env *SpecEnv) resPkg() string {
	if env.pkgPath != "" {
		return env.pkgPath
	}
	if env.fs != nil && env.fs.PkgPath != "" {
		return env.fs.PkgPath
	}
	if env.c.pkg != nil {
		return env.c.pkg.PkgPath
	}
	return ""
}

func (env *SpecEnv) errf(format string, args ...any) {
	msg := fmt.Sprintf("spec %s: %s", env.where, fmt.Sprintf(format, args...))
	u := env.u()
	for _, m := range u.specErrors {
		if m == msg {
			return
		}
	}
	u.specErrors = append(u.specErrors, msg)
}

func (env *SpecEnv) bindResults(results []Val) {
	for i, r := range results {
		env.binds[fmt.Sprintf("result%d", i)] = r
	}
	if len(results) >= 1 {
		env.binds["result"] = results[0]
	}
	// named results in header
	if env.fs != nil && env.fs.Header != nil && env.fs.Header.Type.Results != nil {
		i := 0
		for _, f := range env.fs.Header.Type.Results.List {
			if len(f.Names) == 0 {
				i++
				continue
			}
			for _, n := range f.Names {
				if i < len(results) {
					env.binds[n.Name] = results[i]
				}
				i++
			}
		}
	}
}

func (env *SpecEnv) evalBool(st, old *State, e ast.Expr, where string) *Term {
	env.where = where
	v := env.eval(st, old, e)
	if v.T == nil || v.T.Sort != SBool {
		env.errf("expected boolean, got %v in %s", v.T, exprString(e))
		return env.u().fresh("specerr", SBool)
	}
	return v.T
}

// lookupPkg finds the types.Package for an import name visible in the
// resolution package.
func (env *SpecEnv) lookupPkgName(name string) *types.Package {
	e := env.u().eng
	rp := env.resPkg()
	if m, ok := e.importNames[rp]; ok {
		if p, ok := m[name]; ok {
			return p
		}
	}
	if m, ok := e.specs.Imports[rp]; ok {
		if path, ok := m[name]; ok {
			if p, ok := e.allTypes[path]; ok {
				return p
			}
		}
	}
	if p, ok := e.globalImports[name]; ok {
		return p
	}
	return nil
}

func (env *SpecEnv) resolutionPackage() *types.Package {
	e := env.u().eng
	rp := env.resPkg()
	if p, ok := e.pkgs[rp]; ok {
		return p.Types
	}
	if p, ok := e.allTypes[rp]; ok {
		return p
	}
	return nil
}

// resolveType interprets a type expression.
func (env *SpecEnv) resolveType(e ast.Expr) types.Type {
	switch x := e.(type) {
	case *ast.Ident:
		if o := types.Universe.Lookup(x.Name); o != nil {
			if tn, ok := o.(*types.TypeName); ok {
				return tn.Type()
			}
		}
		if p := env.resolutionPackage(); p != nil {
			if o := p.Scope().Lookup(x.Name); o != nil {
				if tn, ok := o.(*types.TypeName); ok {
					return tn.Type()
				}
			}
		}
	case *ast.SelectorExpr:
		if id, ok := x.X.(*ast.Ident); ok {
			if p := env.lookupPkgName(id.Name); p != nil {
				if o := p.Scope().Lookup(x.Sel.Name); o != nil {
					if tn, ok := o.(*types.TypeName); ok {
						return tn.Type()
					}
				}
			}
		}
	case *ast.StarExpr:
		if t := env.resolveType(x.X); t != nil {
			return types.NewPointer(t)
		}
	case *ast.ArrayType:
		el := env.resolveType(x.Elt)
		if el == nil {
			return nil
		}
		if x.Len == nil {
			return types.NewSlice(el)
		}
		if bl, ok := x.Len.(*ast.BasicLit); ok {
			n, _ := strconv.ParseInt(bl.Value, 10, 64)
			return types.NewArray(el, n)
		}
	case *ast.MapType:
		k, v := env.resolveType(x.Key), env.resolveType(x.Value)
		if k != nil && v != nil {
			return types.NewMap(k, v)
		}
	case *ast.ParenExpr:
		return env.resolveType(x.X)
	case *ast.StructType:
		if x.Fields == nil || len(x.Fields.List) == 0 {
			return types.NewStruct(nil, nil)
		}
	case *ast.InterfaceType:
		return types.NewInterfaceType(nil, nil)
	case *ast.Ellipsis:
		if el := env.resolveType(x.Elt); el != nil {
			return types.NewSlice(el)
		}
	}
	env.errf("cannot resolve type %s", exprString(e))
	return nil
}

func (env *SpecEnv) ghostType(e ast.Expr) types.Type {
	// ref(map[K]V): a reference to a program map (not a ghost array)
	if ce, ok := e.(*ast.CallExpr); ok && len(ce.Args) == 1 {
		if id, ok := ce.Fun.(*ast.Ident); ok && id.Name == "ref" {
			return env.resolveType(ce.Args[0])
		}
	}
	t := env.resolveType(e)
	if m, ok := t.(*types.Map); ok {
		ghostMapTypes[m] = true
	}
	return t
}

func (env *SpecEnv) sortOfGhost(t types.Type) string {
	tm := env.u().eng.tm
	if m, ok := t.(*types.Map); ok && ghostMapTypes[m] {
		return ArraySort(env.sortOfGhost(m.Key()), env.sortOfGhost(m.Elem()))
	}
	return tm.SortOf(t)
}

func (env *SpecEnv) eval(st, old *State, e ast.Expr) Val {
	u := env.u()
	c := env.c
	tm := u.eng.tm
	switch x := e.(type) {
	case *ast.ParenExpr:
		return env.eval(st, old, x.X)
	case *ast.BasicLit:
		switch x.Kind {
		case token.INT:
			return Val{BigLit(x.Value), types.Typ[types.Int]}
		case token.STRING:
			s, _ := strconv.Unquote(x.Value)
			return Val{tm.StrLit(s), types.Typ[types.String]}
		case token.CHAR:
			r, _, _, _ := strconv.UnquoteChar(x.Value[1:len(x.Value)-1], '\'')
			return Val{IntLit(int64(r)), types.Typ[types.Rune]}
		}
		env.errf("literal %s", x.Value)
	case *ast.Ident:
		return env.evalIdent(st, old, x)
	case *ast.SelectorExpr:
		return env.evalSelector(st, old, x)
	case *ast.IndexExpr:
		base := env.eval(st, old, x.X)
		idx := env.eval(st, old, x.Index)
		return env.index(st, base, idx, x)
	case *ast.SliceExpr:
		base := env.eval(st, old, x.X)
		if _, ok := unalias(base.Ty).Underlying().(*types.Slice); ok && x.Low == nil && x.High != nil {
			hi := env.eval(st, old, x.High)
			return Val{mkSlice(base.T.Sort, slArr(base.T), hi.T, slCap(base.T), False), base.Ty}
		}
		if base.T.Sort == SStr {
			lo, hi := IntLit(0), c.strLen(base.T)
			if x.Low != nil {
				lo = env.eval(st, old, x.Low).T
			}
			if x.High != nil {
				hi = env.eval(st, old, x.High).T
			}
			return Val{c.strSub(base.T, lo, hi), base.Ty}
		}
		env.errf("slice expression %s", exprString(e))
	case *ast.StarExpr:
		p := env.eval(st, old, x.X)
		u.quiet++
		v := c.deref(st, p, token.NoPos)
		u.quiet--
		return v
	case *ast.UnaryExpr:
		v := env.eval(st, old, x.X)
		switch x.Op {
		case token.NOT:
			return Val{Not(v.T), v.Ty}
		case token.SUB:
			return Val{Neg(v.T), v.Ty}
		case token.ADD:
			return v
		}
		env.errf("unary %s", x.Op)
	case *ast.BinaryExpr:
		l := env.eval(st, old, x.X)
		r := env.eval(st, old, x.Y)
		if l.T == nil || r.T == nil {
			break
		}
		switch x.Op {
		case token.LAND:
			return Val{And(l.T, r.T), types.Typ[types.Bool]}
		case token.LOR:
			return Val{Or(l.T, r.T), types.Typ[types.Bool]}
		}
		u.quiet++
		sw := u.sweep
		u.sweep = false
		rt := l.Ty
		switch x.Op {
		case token.EQL, token.NEQ, token.LSS, token.LEQ, token.GTR, token.GEQ:
			rt = types.Typ[types.Bool]
		}
		// spec division: mathematical (floor) division on Int
		var v Val
		if (x.Op == token.QUO || x.Op == token.REM) && l.T.Sort == SInt && r.T.Sort == SInt {
			if x.Op == token.QUO {
				v = Val{c.truncDiv(st, l.T, r.T), rt}
			} else {
				v = Val{c.truncMod(st, l.T, r.T), rt}
			}
		} else {
			v = c.binop(st, x.Op, l, r, rt, token.NoPos)
		}
		u.sweep = sw
		u.quiet--
		return v
	case *ast.CallExpr:
		return env.evalCall(st, old, x)
	case *ast.CompositeLit:
		env.errf("composite literal in spec")
	}
	env.errf("unsupported spec expression %s (%T)", exprString(e), e)
	return Val{u.fresh("specerr", SBool), types.Typ[types.Bool]}
}

func (env *SpecEnv) evalIdent(st, old *State, id *ast.Ident) Val {
	u := env.u()
	c := env.c
	name := id.Name
	switch name {
	case "true":
		return Val{True, types.Typ[types.Bool]}
	case "false":
		return Val{False, types.Typ[types.Bool]}
	case "nil":
		return Val{NilTerm, types.Typ[types.UntypedNil]}
	}
	// a local variable that shadows a parameter of the same name wins
	if _, isBound := env.binds[name]; isBound && env.scope != nil && !strings.HasPrefix(name, "ʃ") {
		if _, obj := env.scope.LookupParent(name, env.pos); obj != nil {
			if lv, ok := obj.(*types.Var); ok && !lv.IsField() && !isPkgLevel(lv) && c.paramObjs != nil && !c.paramObjs[lv] && c.headerNames[name] {
				return c.readVarQuiet(st, lv)
			}
		}
	}
	if env.midBody && st != nil {
		root := c
		for root.headerObj == nil && root.parent != nil && !root.inlinedFunc {
			root = root.parent
		}
		if obj := root.headerObj[name]; obj != nil {
			if _, has := st.vars[obj]; has {
				return c.readVarQuiet(st, obj)
			}
		}
	}
	if v, ok := env.binds[name]; ok {
		if v.T != nil && v.T.Sort == "GHOSTKEY" {
			if g, ok := st.ghost[v.T.Name]; ok {
				if v.Ty != nil {
					return Val{g, v.Ty}
				}
				return Val{g, types.Typ[types.Int]}
			}
			env.errf("loop index not available for %s", name)
			return Val{u.fresh("specerr", SInt), types.Typ[types.Int]}
		}
		if v.T != nil && v.T.Sort == "VAROBJ" {
			// late-bound program variable
			return c.readVarQuiet(st, v.obj())
		}
		return v
	}
	if strings.HasPrefix(name, "ʃ") {
		// unit-level ghost variable
		if g, ok := st.ghost[name]; ok {
			return Val{g, u.ghostTypes[name]}
		}
		if gd, ok := u.ghostDecl[name]; ok {
			g := gd.init
			st.ghost[name] = g
			return Val{g, gd.ty}
		}
		env.errf("unknown ghost variable %s", strings.ReplaceAll(name, "ʃ", "$"))
		return Val{u.fresh("specerr", SInt), types.Typ[types.Int]}
	}
	// local variable of the function being verified
	if env.scope != nil {
		if _, obj := env.scope.LookupParent(name, env.pos); obj != nil {
			switch o := obj.(type) {
			case *types.Var:
				return c.readVarQuiet(st, o)
			case *types.Const:
				if v, ok := c.constVal(o.Val(), o.Type()); ok {
					return v
				}
			}
		}
	}
	if p := env.resolutionPackage(); p != nil {
		if obj := p.Scope().Lookup(name); obj != nil {
			switch o := obj.(type) {
			case *types.Var:
				return c.readVarQuiet(st, o)
			case *types.Const:
				if v, ok := c.constVal(o.Val(), o.Type()); ok {
					return v
				}
			case *types.Func:
				return Val{c.funcRef(o), o.Type()}
			}
		}
	}
	env.errf("unknown identifier %s", strings.ReplaceAll(name, "ʃ", "$"))
	return Val{u.fresh("specerr", SInt), types.Typ[types.Int]}
}

func (v Val) obj() *types.Var { return varObjs[v.T.Name] }

var varObjs = map[string]*types.Var{}

func (c *ExecCtx) readVarQuiet(st *State, v *types.Var) Val {
	c.u.quiet++
	r := c.readVar(st, v)
	c.u.quiet--
	return r
}

func (env *SpecEnv) evalSelector(st, old *State, x *ast.SelectorExpr) Val {
	u := env.u()
	c := env.c
	// package-qualified?
	if id, ok := x.X.(*ast.Ident); ok {
		if _, bound := env.binds[id.Name]; !bound {
			isLocal := false
			if env.scope != nil {
				if _, obj := env.scope.LookupParent(id.Name, env.pos); obj != nil {
					if _, isPkg := obj.(*types.PkgName); !isPkg {
						isLocal = true
					}
				}
			}
			if !isLocal {
				if p := env.lookupPkgName(id.Name); p != nil {
					if obj := p.Scope().Lookup(x.Sel.Name); obj != nil {
						switch o := obj.(type) {
						case *types.Const:
							if v, ok := c.constVal(o.Val(), o.Type()); ok {
								return v
							}
						case *types.Var:
							return c.readVarQuiet(st, o)
						case *types.Func:
							return Val{c.funcRef(o), o.Type()}
						}
					}
					env.errf("unknown %s.%s", id.Name, x.Sel.Name)
					return Val{u.fresh("specerr", SInt), types.Typ[types.Int]}
				}
			}
		}
	}
	base := env.eval(st, old, x.X)
	return env.field(st, base, x.Sel.Name, x)
}

// field reads a Go field or ghost field.
func (env *SpecEnv) field(st *State, base Val, name string, at ast.Expr) Val {
	u := env.u()
	c := env.c
	if base.Ty == nil {
		env.errf("field %s of untyped value in %s", name, exprString(at))
		return Val{u.fresh("specerr", SInt), types.Typ[types.Int]}
	}
	// ghost field?
	if strings.HasPrefix(name, "ʃ") {
		st0 := derefType(base.Ty)
		if n, ok := unalias(st0).(*types.Named); ok && n.Obj().Pkg() != nil {
			for _, gf := range u.eng.specs.GhostFields[n.Obj().Pkg().Path()+"."+n.Obj().Name()] {
				if gf.Name == name {
					gt := u.eng.ghostFieldType(gf, env)
					srt := env.sortOfGhost(gt)
					hn := "HG." + shortTypeName(n) + "." + strings.TrimPrefix(name, "ʃ")
					return Val{Select(u.heapGet(st, hn, ArraySort(SInt, srt)), base.T), gt}
				}
			}
		}
		env.errf("unknown ghost field %s on %s", strings.ReplaceAll(name, "ʃ", "$"), base.Ty)
		return Val{u.fresh("specerr", SInt), types.Typ[types.Int]}
	}
	obj, index, _ := types.LookupFieldOrMethod(base.Ty, true, env.anyPkg(base.Ty), name)
	if f, ok := obj.(*types.Var); ok && f.IsField() {
		u.quiet++
		sw := u.sweep
		u.sweep = false
		v := c.walkFieldPathSpec(st, base, index)
		u.sweep = sw
		u.quiet--
		return v
	}
	env.errf("no field %s in %s (%s)", name, base.Ty, exprString(at))
	return Val{u.fresh("specerr", SInt), types.Typ[types.Int]}
}

// walkFieldPathSpec is walkFieldPath without non-nil assumptions side effects
// on nullable tracking (reads only).
func (c *ExecCtx) walkFieldPathSpec(st *State, base Val, path []int) Val {
	cur := base
	for _, idx := range path {
		t := unalias(cur.Ty)
		if pt, ok := t.Underlying().(*types.Pointer); ok {
			elem := pt.Elem()
			_, stt := structOf(elem)
			if stt == nil {
				return Val{c.u.fresh("fld", SInt), types.Typ[types.Invalid]}
			}
			f := stt.Field(idx)
			hn := c.u.eng.tm.HeapName(elem, f.Name())
			fs := c.sortOfType(f.Type())
			cur = Val{Select(c.u.heapGet(st, hn, ArraySort(SInt, fs)), cur.T), f.Type()}
			continue
		}
		_, stt := structOf(t)
		if stt == nil {
			return Val{c.u.fresh("fld", SInt), types.Typ[types.Invalid]}
		}
		cur = Val{c.u.eng.tm.FieldGet(cur.T, t, idx), stt.Field(idx).Type()}
	}
	return cur
}

func (env *SpecEnv) anyPkg(t types.Type) *types.Package {
	// unexported fields are visible to specs: use the defining package
	t = derefType(t)
	if n, ok := unalias(t).(*types.Named); ok && n.Obj() != nil {
		return n.Obj().Pkg()
	}
	return env.resolutionPackage()
}

func (e *Engine) ghostFieldType(gf *GhostField, env *SpecEnv) types.Type {
	if t, ok := e.ghostFieldTypes[gf]; ok {
		return t
	}
	ex, err := parseTypeExpr(gf.TypeSrc)
	if err != nil {
		env.errf("ghost field %s type: %v", gf.Name, err)
		return types.Typ[types.Int]
	}
	env2 := &SpecEnv{c: env.c, pkgPath: gf.PkgPath, binds: map[string]Val{}, where: "ghost field " + gf.Name}
	t := env2.ghostType(ex)
	if t == nil {
		t = types.Typ[types.Int]
	}
	e.ghostFieldTypes[gf] = t
	return t
}

func parseTypeExpr(src string) (ast.Expr, error) {
	e, err := parseSpecExpr("(" + src + ")(nil)")
	if err != nil {
		return nil, err
	}
	return ast.Unparen(e.(*ast.CallExpr).Fun), nil
}

func (env *SpecEnv) index(st *State, base, idx Val, at ast.Expr) Val {
	u := env.u()
	c := env.c
	if base.Ty == nil {
		if k, v, ok := arrayParts(base.T.Sort); ok {
			_ = k
			_ = v
			return Val{Select(base.T, idx.T), nil}
		}
		env.errf("index of untyped non-array %s", exprString(at))
		return Val{u.fresh("specerr", SInt), types.Typ[types.Int]}
	}
	switch bt := unalias(base.Ty).Underlying().(type) {
	case *types.Slice:
		return Val{Select(slArr(base.T), idx.T), bt.Elem()}
	case *types.Array:
		return Val{Select(base.T, idx.T), bt.Elem()}
	case *types.Map:
		if mm, ok := unalias(base.Ty).(*types.Map); ok && ghostMapTypes[mm] {
			k := idx.T
			if isNilVal(idx) {
				k = u.eng.tm.Zero(bt.Key())
			}
			return Val{Select(base.T, k), bt.Elem()}
		}
		u.quiet++
		k := c.convert(st, idx, bt.Key())
		v, _ := c.mapLookup(st, base, k)
		u.quiet--
		return v
	case *types.Basic:
		if bt.Info()&types.IsString != 0 {
			return Val{c.strAt(base.T, idx.T), types.Typ[types.Uint8]}
		}
	}
	env.errf("cannot index %s", base.Ty)
	return Val{u.fresh("specerr", SInt), types.Typ[types.Int]}
}

func (env *SpecEnv) freshQVar(name string, srt string) *Term {
	env.u().eng.nsym++
	return Sym(fmt.Sprintf("%s!q%d", strings.ReplaceAll(name, "ʃ", "_"), env.u().eng.nsym), srt)
}

func (env *SpecEnv) evalCall(st, old *State, x *ast.CallExpr) Val {
	u := env.u()
	c := env.c
	tm := u.eng.tm
	boolT := types.Typ[types.Bool]
	// method-style calls on values: x.M(args) for function-spec'd methods
	if sel, ok := x.Fun.(*ast.SelectorExpr); ok {
		if v, ok := env.methodCall(st, old, sel, x); ok {
			return v
		}
	}
	name := ""
	switch f := x.Fun.(type) {
	case *ast.Ident:
		name = f.Name
	case *ast.SelectorExpr:
		if id, ok := f.X.(*ast.Ident); ok {
			name = id.Name + "." + f.Sel.Name
		}
	}
	arg := func(i int) Val { return env.eval(st, old, x.Args[i]) }
	switch name {
	case "old":
		if old == nil {
			env.errf("old() without pre-state")
			return arg(0)
		}
		return env.eval(old, old, x.Args[0])
	case "imp":
		return Val{Imp(arg(0).T, arg(1).T), boolT}
	case "iff":
		return Val{Eq(arg(0).T, arg(1).T), boolT}
	case "ite":
		cnd, a, b := arg(0), arg(1), arg(2)
		if isNilVal(a) && !isNilVal(b) {
			a = Val{tm.Zero(b.Ty), b.Ty}
		}
		if isNilVal(b) && !isNilVal(a) {
			b = Val{tm.Zero(a.Ty), a.Ty}
		}
		return Val{Ite(cnd.T, a.T, b.T), a.Ty}
	case "len":
		v := arg(0)
		u.quiet++
		l := c.lenOf(st, v, token.NoPos)
		u.quiet--
		return Val{l, types.Typ[types.Int]}
	case "cap":
		v := arg(0)
		if _, isChan := unalias(v.Ty).Underlying().(*types.Chan); isChan {
			// capacity of a channel (recorded at make)
			return Val{Select(u.heapGet(st, "C.cap", ArraySort(SInt, SInt)), v.T), types.Typ[types.Int]}
		}
		return Val{slCap(v.T), types.Typ[types.Int]}
	case "isnil":
		v := arg(0)
		return Val{c.isNil(v), boolT}
	case "fresh":
		// allocated by the call: not allocated in the pre-state, non-nil
		v := arg(0)
		if old == nil {
			env.errf("fresh() without pre-state")
			return Val{True, boolT}
		}
		al0 := u.heapGet(old, "$alloc", ArraySort(SInt, SBool))
		return Val{And(Ne(v.T, IntLit(0)), Not(Select(al0, v.T))), boolT}
	case "allocated":
		v := arg(0)
		al := u.heapGet(st, "$alloc", ArraySort(SInt, SBool))
		return Val{Select(al, v.T), boolT}
	case "arr":
		// the element array of a slice, as a total map int -> elem
		v := arg(0)
		if sl, ok := unalias(v.Ty).Underlying().(*types.Slice); ok {
			m := types.NewMap(types.Typ[types.Int], sl.Elem())
			ghostMapTypes[m] = true
			return Val{slArr(v.T), m}
		}
		env.errf("arr() of non-slice")
		return Val{u.fresh("specerr", SInt), types.Typ[types.Int]}
	case "has":
		m, k := arg(0), arg(1)
		mt, ok := unalias(m.Ty).Underlying().(*types.Map)
		if !ok {
			env.errf("has() on non-map")
			return Val{u.fresh("specerr", SBool), boolT}
		}
		u.quiet++
		_, okT := c.mapLookup(st, m, c.convert(st, k, mt.Key()))
		u.quiet--
		return Val{okT, boolT}
	case "str":
		v := arg(0)
		if v.T.Sort == SStr {
			return v
		}
		return Val{c.bytesToStr(st, v.T), types.Typ[types.String]}
	case "bytes":
		v := arg(0)
		bt := types.NewSlice(types.Typ[types.Uint8])
		return Val{c.strToBytes(st, v.T, bt, bt), bt}
	case "all", "ex":
		// all(i, lo, hi, P)
		id, ok := x.Args[0].(*ast.Ident)
		if !ok || len(x.Args) != 4 {
			env.errf("%s(i, lo, hi, P) expected", name)
			return Val{u.fresh("specerr", SBool), boolT}
		}
		lo, hi := arg(1), arg(2)
		q := env.freshQVar(id.Name, SInt)
		saved, had := env.binds[id.Name]
		env.binds[id.Name] = Val{q, types.Typ[types.Int]}
		mark := len(st.assume)
		body := env.eval(st, old, x.Args[3])
		side := takeSide(st, mark, q)
		if had {
			env.binds[id.Name] = saved
		} else {
			delete(env.binds, id.Name)
		}
		rng := And(Le(lo.T, q), Lt(q, hi.T))
		if env.assuming && !isTrue(side) {
			st.assumeT(Forall([]*Term{q}, side))
			side = True
		}
		if name == "all" {
			return Val{Forall([]*Term{q}, Imp(And(rng, side), body.T)), boolT}
		}
		return Val{Exists([]*Term{q}, And(rng, side, body.T)), boolT}
	case "allT", "exT":
		id, ok := x.Args[0].(*ast.Ident)
		if !ok || len(x.Args) != 3 {
			env.errf("%s(x, T, P) expected", name)
			return Val{u.fresh("specerr", SBool), boolT}
		}
		t := env.resolveType(x.Args[1])
		if t == nil {
			return Val{u.fresh("specerr", SBool), boolT}
		}
		q := env.freshQVar(id.Name, tm.SortOf(t))
		saved, had := env.binds[id.Name]
		env.binds[id.Name] = Val{q, t}
		mark := len(st.assume)
		body := env.eval(st, old, x.Args[2])
		side := takeSide(st, mark, q)
		if had {
			env.binds[id.Name] = saved
		} else {
			delete(env.binds, id.Name)
		}
		if env.assuming && !isTrue(side) {
			st.assumeT(Forall([]*Term{q}, side))
			side = True
		}
		if name == "allT" {
			return Val{Forall([]*Term{q}, Imp(side, body.T)), boolT}
		}
		return Val{Exists([]*Term{q}, And(side, body.T)), boolT}
	case "mapcomp":
		// mapcomp(x, T, expr): the total map x -> expr (definitional)
		id, ok := x.Args[0].(*ast.Ident)
		if !ok || len(x.Args) != 3 {
			env.errf("mapcomp(x, T, expr) expected")
			return Val{u.fresh("specerr", SBool), boolT}
		}
		t := env.resolveType(x.Args[1])
		if t == nil {
			return Val{u.fresh("specerr", SBool), boolT}
		}
		q := env.freshQVar(id.Name, tm.SortOf(t))
		saved, had := env.binds[id.Name]
		env.binds[id.Name] = Val{q, t}
		mark := len(st.assume)
		body := env.eval(st, old, x.Args[2])
		side := takeSide(st, mark, q)
		if had {
			env.binds[id.Name] = saved
		} else {
			delete(env.binds, id.Name)
		}
		arr := u.fresh("mapcomp", ArraySort(q.Sort, body.T.Sort))
		st.assumeT(Forall([]*Term{q}, Imp(side, Eq(Select(arr, q), body.T)), []*Term{Select(arr, q)}))
		var mt types.Type
		if body.Ty != nil {
			m := types.NewMap(t, body.Ty)
			ghostMapTypes[m] = true
			mt = m
		}
		return Val{arr, mt}
	case "ʃsortpi", "ʃsortinv":
		if u.lastSortPi == "" {
			env.errf("%s used before a sort.Sort call", name)
			return Val{u.fresh("specerr", SInt), types.Typ[types.Int]}
		}
		fn := u.lastSortPi
		if name == "ʃsortinv" {
			fn = u.lastSortInv
		}
		return Val{App(fn, SInt, arg(0).T), types.Typ[types.Int]}
	case "typeis":
		v := arg(0)
		t := env.resolveType(x.Args[1])
		u.eng.d.Fun("dyntype", []string{SInt}, SInt)
		return Val{And(Ne(v.T, IntLit(0)), Eq(App("dyntype", SInt, v.T), c.typeTag(t))), boolT}
	case "unbox":
		v := arg(0)
		t := env.resolveType(x.Args[1])
		return Val{c.unbox(v.T, t), t}
	case "held", "heldw":
		key, idx := env.specLockKey(st, old, x.Args[0])
		h, cond, mode := c.lockHeldFor(st, key)
		if !h || (name == "heldw" && mode != 1) {
			return Val{False, boolT}
		}
		t := True
		if cond != nil {
			t = cond
		}
		if idx != nil {
			hi, ok := st.lockIdx[key]
			if !ok {
				return Val{False, boolT}
			}
			t = And(t, Eq(hi, idx))
		}
		return Val{t, boolT}
	case "upd":
		m, k, v := arg(0), arg(1), arg(2)
		if _, _, ok := arrayParts(m.T.Sort); !ok {
			env.errf("upd() on non-map")
			return m
		}
		vt := v.T
		if isNilVal(v) {
			_, vs, _ := arrayParts(m.T.Sort)
			if vs == SInt {
				vt = IntLit(0)
			}
		}
		return Val{Store(m.T, k.T, vt), m.Ty}
	case "tagged":
		if bl, ok := x.Args[0].(*ast.BasicLit); ok {
			s, _ := strconv.Unquote(bl.Value)
			return Val{st.tagTerm(s), boolT}
		}
	case "int", "int64", "uint64", "int32", "uint32", "uint8", "byte", "uint", "uint16", "int16":
		v := arg(0)
		if v.Ty == nil {
			return Val{v.T, types.Universe.Lookup(name).Type()}
		}
		u.quiet++
		r := c.conversion(st, v, types.Universe.Lookup(name).Type(), token.NoPos)
		u.quiet--
		return r
	case "string":
		v := arg(0)
		if v.T.Sort == SStr {
			return Val{v.T, types.Typ[types.String]}
		}
		return Val{c.bytesToStr(st, v.T), types.Typ[types.String]}
	case "ctxUnder", "ctxChild":
		// ctxUnder(c, p): context c is p or was derived (transitively) from p:
		// cancelling p reaches c. ctxChild(c, p): c was derived from p by one
		// derivation step (the strong form, for contracts of module functions
		// that wrap a dependency's derivation). Both read the ancestor set the
		// engine records at every derivation (ctxDerive).
		cv, pv := arg(0), arg(1)
		if cv.T.Sort != SInt || pv.T.Sort != SInt {
			env.errf("%s() on non-context", name)
			return Val{True, boolT}
		}
		u.eng.d.Fun("sf_ctxAnc", []string{SInt}, ArraySort(SInt, SBool))
		ancC := App("sf_ctxAnc", ArraySort(SInt, SBool), cv.T)
		ancP := App("sf_ctxAnc", ArraySort(SInt, SBool), pv.T)
		if name == "ctxChild" {
			return Val{Eq(ancC, Store(ancP, pv.T, True)), boolT}
		}
		return Val{Or(Eq(cv.T, pv.T), Select(ancC, pv.T)), boolT}
	case "wgcount":
		// wgcount(wg): Add()s minus Done()s performed on wg by this unit so far
		k := "$wg:" + exprString(x.Args[0])
		if cur, ok := st.ghost[k]; ok {
			return Val{cur, types.Typ[types.Int]}
		}
		return Val{IntLit(0), types.Typ[types.Int]}
	case "substr":
		// substr(s, lo, hi): the Go slice s[lo:hi] of a string
		sv, lo, hi := arg(0), arg(1), arg(2)
		if sv.T.Sort != SStr {
			env.errf("substr() on non-string")
			return sv
		}
		return Val{c.strSub(sv.T, lo.T, hi.T), sv.Ty}
	case "min", "max":
		a, b := arg(0), arg(1)
		if name == "min" {
			return Val{Ite(Lt(b.T, a.T), b.T, a.T), a.Ty}
		}
		return Val{Ite(Gt(b.T, a.T), b.T, a.T), a.Ty}
	case "abs":
		a := arg(0)
		return Val{App("abs", SInt, a.T), a.Ty}
	case "div":
		return Val{App("div", SInt, arg(0).T, arg(1).T), types.Typ[types.Int]}
	case "mod":
		return Val{App("mod", SInt, arg(0).T, arg(1).T), types.Typ[types.Int]}
	case "select":
		return Val{Select(arg(0).T, arg(1).T), nil}
	}
	// predicate or spec function?
	rp := env.resPkg()
	bare := name
	if pk, nm, ok := strings.Cut(name, "."); ok {
		if p := env.lookupPkgName(pk); p != nil {
			rp, bare = p.Path(), nm
		}
	}
	if p, ok := u.eng.specs.Preds[rp+"."+bare]; ok {
		return env.expandPred(st, old, p, x)
	}
	if sf, ok := u.eng.specs.SpecFns[rp+"."+bare]; ok {
		return env.applySpecFn(st, old, sf, x)
	}
	for _, p := range u.eng.specs.Preds {
		if p.Name == bare {
			return env.expandPred(st, old, p, x)
		}
	}
	for _, sf := range u.eng.specs.SpecFns {
		if sf.Name == bare {
			return env.applySpecFn(st, old, sf, x)
		}
	}
	// conversion to a named type or call of a `function` Go func
	if t := env.tryType(x.Fun); t != nil && len(x.Args) == 1 {
		v := arg(0)
		u.quiet++
		r := c.conversion(st, v, t, token.NoPos)
		u.quiet--
		return r
	}
	if fn := env.lookupFunc(x.Fun); fn != nil {
		sig := fn.Type().(*types.Signature)
		var args []Val
		for i := range x.Args {
			a := arg(i)
			if i < sig.Params().Len() {
				u.quiet++
				a = Val{c.convert(st, a, sig.Params().At(i).Type()), sig.Params().At(i).Type()}
				u.quiet--
			}
			args = append(args, a)
		}
		if sig.Results().Len() == 1 {
			return Val{c.funcApp(fn, nil, args, sig.Results().At(0).Type()), sig.Results().At(0).Type()}
		}
	}
	env.errf("unknown function %s in spec", exprString(x.Fun))
	return Val{u.fresh("specerr", SBool), boolT}
}

// progExpr re-resolves identifiers of a spec expression against the program
// (used for lock expressions): only ident / selector chains are supported.
func (env *SpecEnv) progExpr(e ast.Expr) ast.Expr { return e }

func (env *SpecEnv) tryType(e ast.Expr) types.Type {
	switch x := e.(type) {
	case *ast.Ident:
		if p := env.resolutionPackage(); p != nil {
			if tn, ok := p.Scope().Lookup(x.Name).(*types.TypeName); ok {
				return tn.Type()
			}
		}
	case *ast.SelectorExpr:
		if id, ok := x.X.(*ast.Ident); ok {
			if p := env.lookupPkgName(id.Name); p != nil {
				if tn, ok := p.Scope().Lookup(x.Sel.Name).(*types.TypeName); ok {
					return tn.Type()
				}
			}
		}
	}
	return nil
}

func (env *SpecEnv) lookupFunc(e ast.Expr) *types.Func {
	switch x := e.(type) {
	case *ast.Ident:
		if p := env.resolutionPackage(); p != nil {
			if f, ok := p.Scope().Lookup(x.Name).(*types.Func); ok {
				return f
			}
		}
	case *ast.SelectorExpr:
		if id, ok := x.X.(*ast.Ident); ok {
			if p := env.lookupPkgName(id.Name); p != nil {
				if f, ok := p.Scope().Lookup(x.Sel.Name).(*types.Func); ok {
					return f
				}
			}
		}
	}
	return nil
}

// methodCall handles v.M(args) where M is a method with a `function` contract
// (deterministic, uninterpreted) or a protobuf-style getter.
func (env *SpecEnv) methodCall(st, old *State, sel *ast.SelectorExpr, x *ast.CallExpr) (Val, bool) {
	c := env.c
	u := env.u()
	if id, ok := sel.X.(*ast.Ident); ok {
		if _, bound := env.binds[id.Name]; !bound {
			if env.lookupPkgName(id.Name) != nil {
				local := false
				if env.scope != nil {
					if _, obj := env.scope.LookupParent(id.Name, env.pos); obj != nil {
						if _, isPkg := obj.(*types.PkgName); !isPkg {
							local = true
						}
					}
				}
				if !local {
					return Val{}, false
				}
			}
		}
	}
	base := env.eval(st, old, sel.X)
	if base.Ty == nil {
		return Val{}, false
	}
	obj, _, _ := types.LookupFieldOrMethod(base.Ty, true, env.anyPkg(base.Ty), sel.Sel.Name)
	fn, ok := obj.(*types.Func)
	if !ok {
		return Val{}, false
	}
	sig := fn.Type().(*types.Signature)
	if sig.Results().Len() != 1 {
		env.errf("method %s in spec must have one result", fn.Name())
		return Val{u.fresh("specerr", SBool), types.Typ[types.Bool]}, true
	}
	var args []Val
	for i := range x.Args {
		a := env.eval(st, old, x.Args[i])
		if i < sig.Params().Len() {
			u.quiet++
			a = Val{c.convert(st, a, sig.Params().At(i).Type()), sig.Params().At(i).Type()}
			u.quiet--
		}
		args = append(args, a)
	}
	rt := sig.Results().At(0).Type()
	return Val{c.funcApp(fn, &base, args, rt), rt}, true
}

func (env *SpecEnv) expandPred(st, old *State, p *Pred, x *ast.CallExpr) Val {
	sub := &SpecEnv{c: env.c, fs: env.fs, binds: map[string]Val{}, fnObj: env.fnObj, pkgPath: p.PkgPath, where: p.Where, assuming: env.assuming}
	// quantifier-bound variables of the caller stay visible only via args
	i := 0
	params := p.Header.Type.Params.List
	if p.Header.Recv != nil {
		params = append(append([]*ast.Field{}, p.Header.Recv.List...), params...)
	}
	for _, f := range params {
		for _, n := range f.Names {
			if i < len(x.Args) {
				sub.binds[n.Name] = env.eval(st, old, x.Args[i])
			}
			i++
		}
	}
	if i != len(x.Args) {
		env.errf("pred %s: %d args, want %d", p.Name, len(x.Args), i)
	}
	v := sub.eval(st, old, p.Body)
	return v
}

func (env *SpecEnv) applySpecFn(st, old *State, sf *SpecFn, x *ast.CallExpr) Val {
	u := env.u()
	d := u.eng.d
	tenv := &SpecEnv{c: env.c, pkgPath: sf.PkgPath, binds: map[string]Val{}, where: sf.Where}
	var sorts []string
	var args []*Term
	i := 0
	for _, f := range sf.Header.Type.Params.List {
		t := tenv.ghostType(f.Type)
		n := len(f.Names)
		if n == 0 {
			n = 1
		}
		for k := 0; k < n; k++ {
			if i < len(x.Args) {
				a := env.eval(st, old, x.Args[i])
				at := a.T
				if isNilVal(a) && t != nil {
					at = u.eng.tm.Zero(t)
				}
				args = append(args, at)
				if t != nil {
					sorts = append(sorts, tenv.sortOfGhost(t))
				} else {
					sorts = append(sorts, at.Sort)
				}
			}
			i++
		}
	}
	var rt types.Type = types.Typ[types.Bool]
	if sf.Header.Type.Results != nil && len(sf.Header.Type.Results.List) > 0 {
		rt = tenv.ghostType(sf.Header.Type.Results.List[0].Type)
	}
	rs := tenv.sortOfGhost(rt)
	name := "sf_" + sanitize(sf.Name)
	for k := range args {
		if k < len(sorts) && args[k].Sort != sorts[k] {
			env.errf("specfn %s arg %d: sort %s, want %s", sf.Name, k, args[k].Sort, sorts[k])
			return Val{u.fresh("specerr", rs), rt}
		}
	}
	if len(args) == 0 {
		return Val{d.Const(name, rs), rt}
	}
	d.Fun(name, sorts, rs)
	return Val{App(name, rs, args...), rt}
}

// ---------------------------------------------------------------------------
// havoc of a modifies target: x.f, x.f[*], *p, m[*] ...

func (env *SpecEnv) havocTarget(st *State, e ast.Expr, where string) {
	u := env.u()
	c := env.c
	env.where = where
	switch x := e.(type) {
	case *ast.SelectorExpr:
		if hn, srt, ok := env.typeFieldHeap(x); ok {
			// Type.field: the field of every object of that type
			h := u.heapGet(st, hn, srt)
			u.heapSet(st, hn, u.fresh("modall_"+x.Sel.Name, h.Sort))
			return
		}
		base := env.eval(st, st, x.X)
		name := x.Sel.Name
		if strings.HasPrefix(name, "ʃ") {
			st0 := derefType(base.Ty)
			if n, ok := unalias(st0).(*types.Named); ok {
				for _, gf := range u.eng.specs.GhostFields[n.Obj().Pkg().Path()+"."+n.Obj().Name()] {
					if gf.Name == name {
						srt := env.sortOfGhost(u.eng.ghostFieldType(gf, env))
						hn := "HG." + shortTypeName(n) + "." + strings.TrimPrefix(name, "ʃ")
						h := u.heapGet(st, hn, ArraySort(SInt, srt))
						u.heapSet(st, hn, Store(h, base.T, u.fresh("mod_"+name, srt)))
						return
					}
				}
			}
			env.errf("modifies: unknown ghost field %s", name)
			return
		}
		obj, index, _ := types.LookupFieldOrMethod(base.Ty, true, env.anyPkg(base.Ty), name)
		f, ok := obj.(*types.Var)
		if !ok || len(index) != 1 {
			env.errf("modifies: cannot resolve %s", exprString(e))
			return
		}
		if _, isPtr := unalias(base.Ty).Underlying().(*types.Pointer); !isPtr {
			env.errf("modifies: %s is not a pointer field access", exprString(e))
			return
		}
		st0 := derefType(base.Ty)
		hn := u.eng.tm.HeapName(st0, f.Name())
		fs := c.sortOfType(f.Type())
		h := u.heapGet(st, hn, ArraySort(SInt, fs))
		nv := u.fresh("mod_"+f.Name(), fs)
		u.heapSet(st, hn, Store(h, base.T, nv))
		c.typeFacts(st, nv, f.Type())
	case *ast.StarExpr:
		p := env.eval(st, st, x.X)
		c.havocArgContents(st, p)
	case *ast.Ident:
		// a map / pointer parameter: its contents
		v := env.eval(st, st, x)
		if strings.HasPrefix(x.Name, "ʃ") {
			if g, ok := st.ghost[x.Name]; ok {
				u.ghostSet(st, x.Name, u.fresh("mod_g", g.Sort))
			}
			return
		}
		c.havocArgContents(st, v)
	case *ast.MapType:
		// map[K]V : contents of every map of that type
		if t := env.resolveType(x); t != nil {
			if mt, ok := t.(*types.Map); ok {
				hn, vn, ln, ks, vs := c.mapHeaps(mt)
				for _, hs := range [][2]string{{hn, ArraySort(SInt, ArraySort(ks, SBool))}, {vn, ArraySort(SInt, ArraySort(ks, vs))}, {ln, ArraySort(SInt, SInt)}} {
					h := u.heapGet(st, hs[0], hs[1])
					u.heapSet(st, hs[0], u.fresh("modall_map", h.Sort))
				}
			}
		}
	default:
		env.errf("modifies: unsupported target %s", exprString(e))
	}
}

// ---------------------------------------------------------------------------
// Context helpers used by the executor

func (c *ExecCtx) newEnv(binds map[string]Val, pos token.Pos) *SpecEnv {
	b := map[string]Val{}
	root := c
	for root.binds == nil && root.parent != nil && !root.inlinedFunc {
		root = root.parent
	}
	for k, v := range root.binds {
		b[k] = v
	}
	if c.paramObjs == nil {
		c.paramObjs, c.headerNames = root.paramObjs, root.headerNames
	}
	for _, lb := range c.loopBinds {
		for k, v := range lb {
			b[k] = v
		}
	}
	for k, v := range binds {
		b[k] = v
	}
	env := &SpecEnv{c: c, fs: c.ownSpecOr(), binds: b, pos: pos}
	if c.pkg != nil && pos != token.NoPos {
		env.scope = c.pkg.Types.Scope().Innermost(pos)
	}
	return env
}

func (c *ExecCtx) specBool(st, old *State, cl SpecClause, pos token.Pos, binds map[string]Val) *Term {
	env := c.newEnv(binds, pos)
	return env.evalBool(st, old, cl.Expr, cl.Where)
}

// specBoolAssume: like specBool for formulas that will be assumed.
func (c *ExecCtx) specBoolAssume(st, old *State, cl SpecClause, pos token.Pos, binds map[string]Val) *Term {
	env := c.newEnv(binds, pos)
	env.assuming = true
	return env.evalBool(st, old, cl.Expr, cl.Where)
}

// specBoolIn evaluates with name resolution in `root` (the contract owner)
// but locals looked up at the position inside ctx `in`.
func (c *ExecCtx) specBoolIn(in *ExecCtx, st, old *State, cl SpecClause, pos token.Pos, binds map[string]Val) *Term {
	env := in.newEnv(binds, pos)
	for k, v := range c.binds {
		if _, ok := env.binds[k]; !ok {
			env.binds[k] = v
		}
	}
	env.fs = c.spec
	return env.evalBool(st, old, cl.Expr, cl.Where)
}

func (c *ExecCtx) specInt(st, old *State, cl SpecClause, pos token.Pos, binds map[string]Val) *Term {
	env := c.newEnv(binds, pos)
	env.midBody = true // (only used for loop variants)
	env.where = cl.Where
	v := env.eval(st, old, cl.Expr)
	if v.T == nil || v.T.Sort != SInt {
		env.errf("expected integer in %s", cl.Src)
		return c.u.fresh("specerr", SInt)
	}
	return v.T
}

// ---------------------------------------------------------------------------
// ghost statements and anchors

func (c *ExecCtx) rootSpecCtx() *ExecCtx {
	r := c
	for r.spec == nil && r.parent != nil {
		r = r.parent
	}
	return r
}

// ownSpec: the contract whose ghost anchors apply to code executed in c: the
// unit's own contract, also inside its func literals inlined at their call
// sites, but not inside bodies of other functions inlined here.
func (c *ExecCtx) ownSpec() *FuncSpec {
	// the unit's root context
	root := c
	for root.parent != nil {
		root = root.parent
	}
	if root.spec == nil {
		return nil
	}
	for x := c; x != nil; x = x.parent {
		if x.spec != nil {
			return x.spec
		}
		if x.lit != nil && x.parent != nil {
			// a func literal being executed: own code iff it is written
			// inside the unit's function
			var lo, hi token.Pos
			if root.lit != nil {
				lo, hi = root.lit.Pos(), root.lit.End()
			} else if root.fn != nil {
				lo, hi = root.fn.Decl.Pos(), root.fn.Decl.End()
			}
			if x.lit.Pos() >= lo && x.lit.End() <= hi {
				return root.spec
			}
			return nil
		}
		if x.inlinedFunc {
			return nil
		}
	}
	return nil
}

func (c *ExecCtx) runGhostAnchors(st *State, s ast.Stmt, when string) {
	spec := c.ownSpec()
	if spec == nil || len(spec.Ghosts) == 0 {
		return
	}
	for _, g := range spec.Ghosts {
		an := g.Anchor
		switch {
		case strings.HasPrefix(an, "append(") && when == "after":
			target := strings.TrimSuffix(strings.TrimPrefix(an, "append("), ")")
			as, ok := s.(*ast.AssignStmt)
			if !ok {
				continue
			}
			for _, r := range as.Rhs {
				if call, ok := ast.Unparen(r).(*ast.CallExpr); ok {
					if id, ok := call.Fun.(*ast.Ident); ok && id.Name == "append" && len(call.Args) > 0 && exprString(call.Args[0]) == target {
						g.used = true
						// $app: the appended slice for `append(x, ys...)`
						binds := map[string]Val{}
						if call.Ellipsis.IsValid() && len(call.Args) == 2 {
							c.u.quiet++
							binds["ʃapp"] = c.eval(st, call.Args[1])
							c.u.quiet--
						}
						c.execGhostWith(st, g, s.Pos(), binds)
					}
				}
			}
		case (strings.HasPrefix(an, "continue") || strings.HasPrefix(an, "break")) && when == "before":
			// continue / break / continue(Label) / break(Label)
			bs, ok := s.(*ast.BranchStmt)
			if !ok {
				continue
			}
			want := bs.Tok.String()
			if bs.Label != nil {
				want += "(" + bs.Label.Name + ")"
			}
			if an == want {
				g.used = true
				c.execGhost(st, g, s.Pos())
			}
		case strings.HasPrefix(an, "dec(") && when == "after":
			target := strings.TrimSuffix(strings.TrimPrefix(an, "dec("), ")")
			if ids, ok := s.(*ast.IncDecStmt); ok && ids.Tok == token.DEC && exprString(ids.X) == target {
				g.used = true
				c.execGhost(st, g, s.Pos())
			}
		case strings.HasPrefix(an, "inc(") && when == "after":
			target := strings.TrimSuffix(strings.TrimPrefix(an, "inc("), ")")
			if ids, ok := s.(*ast.IncDecStmt); ok && ids.Tok == token.INC && exprString(ids.X) == target {
				g.used = true
				c.execGhost(st, g, s.Pos())
			}
		case strings.HasPrefix(an, "assign(") && when == "after":
			target := strings.TrimSuffix(strings.TrimPrefix(an, "assign("), ")")
			if as, ok := s.(*ast.AssignStmt); ok {
				for _, l := range as.Lhs {
					if exprString(l) == target {
						g.used = true
						c.execGhost(st, g, s.End())
					}
				}
			}
		}
	}
}

func (c *ExecCtx) runNamedAnchor(st *State, anchor string, pos token.Pos) {
	c.runNamedAnchorWith(st, anchor, pos, nil)
}

func (c *ExecCtx) runNamedAnchorWith(st *State, anchor string, pos token.Pos, binds map[string]Val) {
	if c.spec == nil || c.depth > 0 {
		return
	}
	for _, g := range c.spec.Ghosts {
		if g.Anchor == anchor {
			g.used = true
			c.execGhostWith(st, g, pos, binds)
		}
	}
}

func (c *ExecCtx) runCallAnchors(st *State, fn *types.Func, call *ast.CallExpr, res []Val) {
	spec := c.ownSpec()
	if spec == nil || len(spec.Ghosts) == 0 {
		return
	}
	name := fn.Name()
	ord := c.callOrdinal(call, name)
	for _, g := range spec.Ghosts {
		if g.Anchor == "call("+name+")" || g.Anchor == "call("+exprString(call.Fun)+")" || g.Anchor == fmt.Sprintf("call(%s)#%d", name, ord) {
			g.used = true
			binds := map[string]Val{}
			for i, r := range res {
				binds[fmt.Sprintf("ʃret%d", i)] = r
			}
			if len(res) > 0 {
				binds["ʃret"] = res[0]
			}
			for i, a := range c.callArgs {
				binds[fmt.Sprintf("ʃarg%d", i)] = a
			}
			if c.callRecv != nil {
				binds["ʃrecv"] = *c.callRecv
			}
			c.execGhostWith(st, g, call.Pos(), binds)
		}
	}
}

func (c *ExecCtx) noteAppend(st *State, call *ast.CallExpr, r *Term) {}

func (c *ExecCtx) execGhost(st *State, g *GhostAnchor, pos token.Pos) {
	c.execGhostWith(st, g, pos, nil)
}

func (c *ExecCtx) execGhostWith(st *State, g *GhostAnchor, pos token.Pos, binds map[string]Val) {
	u := c.u
	env := c.newEnv(binds, pos)
	env.where = g.Where
	env.midBody = true
	for _, s := range g.Stmts {
		switch x := s.(type) {
		case *ast.AssignStmt:
			if len(x.Lhs) != 1 || len(x.Rhs) != 1 {
				env.errf("ghost: only single assignment")
				continue
			}
			v := env.eval(st, c.oldState, x.Rhs[0])
			env.ghostAssign(st, x.Lhs[0], v)
		case *ast.ExprStmt:
			call, ok := x.X.(*ast.CallExpr)
			if !ok {
				env.errf("ghost: bad statement")
				continue
			}
			id, _ := call.Fun.(*ast.Ident)
			if id == nil {
				env.errf("ghost: bad call")
				continue
			}
			switch id.Name {
			case "assert":
				t := env.evalBool(st, c.oldState, call.Args[0], g.Where)
				u.oblige(st, "assert", t, pos, "ghost assert: "+exprString(call.Args[0]))
				st.assumeT(t)
			case "assume":
				t := env.evalBool(st, c.oldState, call.Args[0], g.Where)
				u.assumesUsed = append(u.assumesUsed, g.Where+": "+exprString(call.Args[0]))
				st.assumeT(t)
			default:
				env.errf("ghost: unknown statement %s", id.Name)
			}
		default:
			env.errf("ghost: unsupported statement %T", s)
		}
	}
}

func (env *SpecEnv) ghostAssign(st *State, lhs ast.Expr, v Val) {
	u := env.u()
	switch x := lhs.(type) {
	case *ast.Ident:
		if !strings.HasPrefix(x.Name, "ʃ") {
			env.errf("ghost assignment to non-ghost %s", x.Name)
			return
		}
		if cur, ok := st.ghost[x.Name]; ok && cur.Sort != v.T.Sort {
			env.errf("ghost %s: sort %s, assigned %s", x.Name, cur.Sort, v.T.Sort)
			return
		}
		u.ghostSet(st, x.Name, u.define(st, "g"+x.Name, v.T))
		if u.ghostTypes[x.Name] == nil {
			u.ghostTypes[x.Name] = v.Ty
		}
	case *ast.SelectorExpr:
		base := env.eval(st, st, x.X)
		name := x.Sel.Name
		if !strings.HasPrefix(name, "ʃ") {
			env.errf("ghost assignment to real field %s", name)
			return
		}
		hn, srt, ok := env.ghostHeap(base, name)
		if !ok {
			return
		}
		h := u.heapGet(st, hn, ArraySort(SInt, srt))
		if v.T.Sort != srt {
			env.errf("ghost field %s: sort %s, assigned %s", name, srt, v.T.Sort)
			return
		}
		u.heapSet(st, hn, Store(h, base.T, v.T))
	case *ast.IndexExpr:
		// g[k] = v  where g is a ghost map (variable or field)
		cur := env.eval(st, st, x.X)
		k := env.eval(st, st, x.Index)
		if _, _, ok := arrayParts(cur.T.Sort); !ok {
			env.errf("ghost index assignment on non-map %s", exprString(x.X))
			return
		}
		kk, vv, _ := arrayParts(cur.T.Sort)
		kt, vt := k.T, v.T
		if isNilVal(k) {
			kt = IntLit(0)
		}
		if kt.Sort != kk || vt.Sort != vv {
			env.errf("ghost map store: sorts %s,%s want %s,%s", kt.Sort, vt.Sort, kk, vv)
			return
		}
		env.ghostAssign(st, x.X, Val{Store(cur.T, kt, vt), cur.Ty})
	default:
		env.errf("ghost: unsupported l-value %s", exprString(lhs))
	}
}

func (env *SpecEnv) ghostHeap(base Val, name string) (string, string, bool) {
	u := env.u()
	st0 := derefType(base.Ty)
	if n, ok := unalias(st0).(*types.Named); ok && n.Obj().Pkg() != nil {
		for _, gf := range u.eng.specs.GhostFields[n.Obj().Pkg().Path()+"."+n.Obj().Name()] {
			if gf.Name == name {
				srt := env.sortOfGhost(u.eng.ghostFieldType(gf, env))
				return "HG." + shortTypeName(n) + "." + strings.TrimPrefix(name, "ʃ"), srt, true
			}
		}
	}
	env.errf("unknown ghost field %s on %v", name, base.Ty)
	return "", "", false
}

var _ = constant.MakeBool


// callOrdinal: index of this call among the calls to functions named `name`
// in the enclosing function body (source order).
func (c *ExecCtx) callOrdinal(call *ast.CallExpr, name string) int {
	var body ast.Node
	root := c
	for root.parent != nil && root.spec == nil {
		root = root.parent
	}
	if root.lit != nil && root.parent == nil {
		body = root.lit.Body
	} else if root.fn != nil {
		body = root.fn.Decl.Body
	}
	if body == nil {
		return -1
	}
	n, found := 0, -1
	ast.Inspect(body, func(x ast.Node) bool {
		if found >= 0 {
			return false
		}
		if ce, ok := x.(*ast.CallExpr); ok {
			if calleeName(ce) == name {
				if ce == call {
					found = n
					return false
				}
				n++
			}
		}
		return true
	})
	return found
}


func (c *ExecCtx) runBeforeCallAnchors(st *State, fn *types.Func, call *ast.CallExpr, recv *Val, args []Val) {
	spec := c.ownSpec()
	if spec == nil || len(spec.Ghosts) == 0 {
		return
	}
	name := fn.Name()
	ord := -2
	for _, g := range spec.Ghosts {
		if !strings.HasPrefix(g.Anchor, "before call(") {
			continue
		}
		if ord == -2 {
			ord = c.callOrdinal(call, name)
		}
		if g.Anchor == "before call("+name+")" || g.Anchor == fmt.Sprintf("before call(%s)#%d", name, ord) {
			g.used = true
			binds := map[string]Val{}
			for i, a := range args {
				binds[fmt.Sprintf("ʃarg%d", i)] = a
			}
			if recv != nil {
				binds["ʃrecv"] = *recv
			}
			c.execGhostWith(st, g, call.Pos(), binds)
		}
	}
}


// takeSide removes the assumptions added since mark that mention the bound
// variable q (definitional facts produced while evaluating under the binder)
// and returns their conjunction, to be placed inside the quantifier.
func takeSide(st *State, mark int, q *Term) *Term {
	if len(st.assume) <= mark {
		return True
	}
	var keep, side []*Term
	for _, a := range st.assume[mark:] {
		s := map[string]bool{}
		collectSyms(a, s)
		if s[q.Name] {
			side = append(side, a)
		} else {
			keep = append(keep, a)
		}
	}
	st.assume = append(st.assume[:mark:mark], keep...)
	return And(side...)
}


// typeFieldHeap recognises `TypeName.field` (or pkg.TypeName.field) in a
// modifies clause and returns the heap of that field.
func (env *SpecEnv) typeFieldHeap(x *ast.SelectorExpr) (string, string, bool) {
	if id, ok := x.X.(*ast.Ident); ok {
		if _, bound := env.binds[id.Name]; bound {
			return "", "", false
		}
	}
	t := env.tryType(x.X)
	if t == nil {
		return "", "", false
	}
	_, stt := structOf(t)
	if stt == nil {
		return "", "", false
	}
	for i := 0; i < stt.NumFields(); i++ {
		if stt.Field(i).Name() == x.Sel.Name {
			tm := env.u().eng.tm
			return tm.HeapName(t, x.Sel.Name), ArraySort(SInt, tm.SortOf(stt.Field(i).Type())), true
		}
	}
	return "", "", false
}


// specLockKey computes the lock key (and index term) of a lock expression
// written in a contract: x.mu or x.locks[i], where x is a spec expression.
func (env *SpecEnv) specLockKey(st, old *State, e ast.Expr) (string, *Term) {
	switch x := e.(type) {
	case *ast.IndexExpr:
		k, _ := env.specLockKey(st, old, x.X)
		i := env.eval(st, old, x.Index)
		return k + "[]", i.T
	case *ast.SelectorExpr:
		b := env.eval(st, old, x.X)
		return b.T.String() + "." + x.Sel.Name, nil
	case *ast.ParenExpr:
		return env.specLockKey(st, old, x.X)
	case *ast.UnaryExpr:
		return env.specLockKey(st, old, x.X)
	}
	return "?" + exprString(e), nil
}


func (c *ExecCtx) ownSpecOr() *FuncSpec {
	if c.spec != nil {
		return c.spec
	}
	return c.ownSpec()
}


// path tags are ghost booleans so that they survive state merging
func (st *State) tagTerm(name string) *Term {
	if t, ok := st.ghost["$tag:"+name]; ok {
		return t
	}
	return False
}

func (u *Unit) setTag(st *State, name string) {
	st.tags[name] = true
	u.ghostSet(st, "$tag:"+name, True)
}

func (c *ExecCtx) runBeforeNamedCallAnchors(st *State, name string, call *ast.CallExpr, recv *Val, args []Val) {
	spec := c.ownSpec()
	if spec == nil || len(spec.Ghosts) == 0 {
		return
	}
	ord := -2
	for _, g := range spec.Ghosts {
		if !strings.HasPrefix(g.Anchor, "before call(") {
			continue
		}
		if ord == -2 {
			ord = c.callOrdinal(call, name)
		}
		if g.Anchor == "before call("+name+")" || g.Anchor == fmt.Sprintf("before call(%s)#%d", name, ord) {
			g.used = true
			binds := map[string]Val{}
			for i, a := range args {
				binds[fmt.Sprintf("ʃarg%d", i)] = a
			}
			c.execGhostWith(st, g, call.Pos(), binds)
		}
	}
}

func (c *ExecCtx) runNamedCallAnchors(st *State, name string, call *ast.CallExpr, res []Val) {
	spec := c.ownSpec()
	if os.Getenv("GOVC_DEBUG") != "" {
		fmt.Fprintln(os.Stderr, "dyn-anchor", name, spec != nil, st.dead)
	}
	if spec == nil || len(spec.Ghosts) == 0 || st.dead {
		return
	}
	ord := c.callOrdinal(call, name)
	for _, g := range spec.Ghosts {
		if g.Anchor == "call("+name+")" || g.Anchor == fmt.Sprintf("call(%s)#%d", name, ord) {
			g.used = true
			binds := map[string]Val{}
			for i, r := range res {
				binds[fmt.Sprintf("ʃret%d", i)] = r
			}
			if len(res) > 0 {
				binds["ʃret"] = res[0]
			}
			for i, a := range c.callArgs {
				binds[fmt.Sprintf("ʃarg%d", i)] = a
			}
			c.execGhostWith(st, g, call.Pos(), binds)
		}
	}
}
