#!/bin/bash
# canary_par.sh: for every `fixed` entry of known_findings.json, revert the fix in a
# scratch clone of /repo (GOVC_REPO/GOVC_OUT), run the property's check there and
# report whether the recorded obligation fails. /repo is not touched.
cd /verif
python3 - <<'PY' > /tmp/cn-list.txt
import json
for i,e in enumerate(json.load(open('/verif/known_findings.json'))):
    if e.get('status')=='fixed': print(i, e['commit'], e['property'])
PY
N=${1:-4}
rm -rf /tmp/cn-out; mkdir -p /tmp/cn-out
for k in $(seq 0 $((N-1))); do
  (
    rp=/tmp/cn-repo-$k; out=/tmp/cn-o-$k; rm -rf $rp $out; git clone -q /repo $rp; mkdir -p $out
    awk -v k=$k -v n=$N 'NR%n==k' /tmp/cn-list.txt | while read i c p; do
      git -C $rp checkout -q -- .
      git -C $rp show $c -- . ':!*verif_contracts.go' | git -C $rp apply -R 2>/dev/null || { echo "$i $c $p REVERT-FAILED" > /tmp/cn-out/$i.res; continue; }
      GOVC_REPO=$rp GOVC_OUT=$out ./check $p quick > /tmp/cn-out/$i.out 2>&1
      echo "$i $c $p rc=$?" > /tmp/cn-out/$i.res
    done
    rm -rf $rp $out
  ) &
done
wait
python3 - <<'PY'
import json,re
kf=json.load(open('/verif/known_findings.json'))
bad=0
for l in open('/tmp/cn-list.txt'):
    i,c,p=l.split(); i=int(i); e=kf[i]
    try: out=open('/tmp/cn-out/%d.out'%i).read(); res=open('/tmp/cn-out/%d.res'%i).read().strip()
    except Exception as x: print(c,p,'no output'); bad+=1; continue
    pat=e['obligation']
    if pat.startswith('bounded:'):
        ok=re.search(r'FAILED-BOUNDED '+pat[len('bounded:'):], out) is not None
    else:
        ok=any(re.search(pat,l2) and (e.get('contains','') in l2) for l2 in out.splitlines() if l2.startswith('FAILED-OBLIGATION'))
    print(c,p,res.split()[-1],'recorded obligation fails' if ok else 'RECORDED OBLIGATION DID NOT FAIL: '+pat)
    if not ok: bad+=1
print('canaries not firing:',bad)
PY
