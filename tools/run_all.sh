#!/bin/bash
# run every claimed check (quick) on the current tree, 4 at a time; summary on stdout
cd /verif
ids=$(python3 -c "import json;print(' '.join(c['property_id'] for c in json.load(open('MANIFEST.json'))['checks']))")
tier=${1:-quick}
echo $ids | tr ' ' '\n' | xargs -P 4 -I{} sh -c "./check {} $tier > /tmp/runall-{}.out 2>&1; echo {} rc=\$? \$(tail -1 /tmp/runall-{}.out)"
