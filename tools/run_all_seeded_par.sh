#!/bin/bash
# Runs every confirmed seeded change against the check of its property on N
# scratch copies of /repo in parallel (GOVC_REPO / GOVC_OUT), writes
# seeded/RESULTS.txt. /repo itself is not touched. Usage: run_all_seeded_par.sh [N]
N=${1:-4}
cd /verif
names=${NAMES:-$(ls -d seeded/C*/ | xargs -n1 basename)}
rm -rf /tmp/sp-*; mkdir -p /tmp/sp-out
i=0
for n in $names; do echo $n >> /tmp/sp-out/list.$((i % N)); i=$((i+1)); done
for k in $(seq 0 $((N-1))); do
  (
    rp=/tmp/sp-repo-$k; out=/tmp/sp-o-$k
    rm -rf $rp $out; git clone -q /repo $rp; mkdir -p $out
    for n in $(cat /tmp/sp-out/list.$k); do
      p=$(python3 -c "import json;print(json.load(open('/verif/seeded/$n/meta.json'))['property'])")
      git -C $rp checkout -q -- . ; git -C $rp apply /verif/seeded/$n/patch.diff 2>/dev/null || { echo "$n property=$p APPLY-FAILED" > /tmp/sp-out/$n.res; continue; }
      GOVC_REPO=$rp GOVC_OUT=$out ./check $p quick > /tmp/sp-out/$n.out 2>&1; rc=$?
      nv=$(grep -c '^VIOLATION' /tmp/sp-out/$n.out)
      echo "$n property=$p rc=$rc violations=$nv $(grep '^FAILED-OBLIGATION\|^FAILED-BOUNDED' /tmp/sp-out/$n.out | sed "s#$rp/##g" | head -1 | cut -c1-260)" > /tmp/sp-out/$n.res
    done
    rm -rf $rp $out
  ) &
done
wait
: > ${RESFILE:-seeded/RESULTS.txt}
for n in $names; do cat /tmp/sp-out/$n.res >> ${RESFILE:-seeded/RESULTS.txt}; echo >> ${RESFILE:-seeded/RESULTS.txt}; done
grep -c "rc=1" ${RESFILE:-seeded/RESULTS.txt}; grep "property=" ${RESFILE:-seeded/RESULTS.txt} | grep -v "rc=1"
rm -rf /tmp/sp-out /tmp/sp-repo-* /tmp/sp-o-*
