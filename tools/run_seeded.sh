#!/bin/bash
# run_seeded.sh <name> [tier]: apply seeded/<name>/patch.diff to /repo, run the property's check, undo.
name=$1; tier=${2:-quick}
prop=$(python3 -c "import json;print(json.load(open('/verif/seeded/$name/meta.json'))['property'])")
cd /repo && git diff --quiet || { echo "/repo dirty"; exit 2; }
git -C /repo apply /verif/seeded/$name/patch.diff || { echo "apply failed"; exit 2; }
cp /verif/evidence/$prop.json /tmp/evidence-$prop.bak 2>/dev/null
cd /verif && ./check $prop $tier > /tmp/seeded-$name.out 2>&1; rc=$?
git -C /repo checkout -- . 
cp /tmp/evidence-$prop.bak /verif/evidence/$prop.json 2>/dev/null
nv=$(grep -c '^VIOLATION' /tmp/seeded-$name.out)
echo "$name property=$prop rc=$rc violations=$nv"
grep '^FAILED-OBLIGATION' /tmp/seeded-$name.out | cut -c1-220 | head -5
