#!/bin/bash
# run every confirmed seeded change whose property is claimed; write seeded/RESULTS.txt
cd /verif
claimed=$(python3 -c "import json;print(' '.join(c['property_id'] for c in json.load(open('MANIFEST.json'))['checks']))")
: > seeded/RESULTS.txt
for d in seeded/C*/; do
  n=$(basename $d)
  p=$(python3 -c "import json;print(json.load(open('$d/meta.json'))['property'])")
  case " $claimed " in *" $p "*) ;; *) echo "$n property=$p NOT-CLAIMED" >> seeded/RESULTS.txt; continue;; esac
  ./tools/run_seeded.sh $n | head -2 | tr '\n' ' ' | cut -c1-300 >> seeded/RESULTS.txt
  echo >> seeded/RESULTS.txt
done
cat seeded/RESULTS.txt
