#!/bin/bash
# canary.sh <fix-commit> <property>: revert one "fix:" commit in /repo's working tree (not committed),
# run the property's check - it must report a violation - and restore the tree.
c=$1; prop=$2
cd /repo && git diff --quiet || { echo "/repo dirty"; exit 2; }
git show $c -- . ':!*verif_contracts.go' | git apply -R || { echo "revert failed"; exit 2; }
cp /verif/evidence/$prop.json /tmp/evidence-$prop.bak 2>/dev/null
cd /verif && ./check $prop quick > /tmp/canary-$c.out 2>&1; rc=$?
git -C /repo checkout -- .
cp /tmp/evidence-$prop.bak /verif/evidence/$prop.json 2>/dev/null
echo "canary $c property=$prop rc=$rc violations=$(grep -c '^VIOLATION' /tmp/canary-$c.out)"
grep '^FAILED-OBLIGATION\|^KNOWN' /tmp/canary-$c.out | cut -c1-200 | head -4
