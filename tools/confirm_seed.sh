#!/bin/bash
# confirm_seed.sh <name> : confirm a seeded change from /tmp/seeded-out/<name> in a scratch worktree
# and store it under /verif/seeded/<name>/ with the confirmation log.
name=$1
src=${SRC:-/tmp/seeded-out}/$name
wt=/tmp/cs-$name
out=/verif/seeded/$name
export GOFLAGS=-mod=mod GOPROXY=off
set -u
[ -f $src/patch.diff ] || { echo "no patch for $name"; exit 2; }
rm -rf $wt; git -C /repo worktree prune
git -C /repo worktree add -q --detach $wt HEAD || exit 2
pkg=$(python3 -c "import json;print(json.load(open('$src/meta.json'))['demo']['package'])")
file=$(python3 -c "import json;print(json.load(open('$src/meta.json'))['demo']['file'])")
tname=$(grep -ho 'func TestSeeded[A-Za-z0-9]*' $src/$file | head -1 | sed 's/func //')
mkdir -p $out; log=$out/confirm.log; : > $log
cp $src/$file $wt/$pkg/
echo "== demo on clean tree (expect PASS)" >> $log
(cd $wt && go test -vet=off -count=1 -timeout 15m -run "^$tname\$" $pkg) >> $log 2>&1; clean_rc=$?
(cd $wt && git apply $src/patch.diff) >> $log 2>&1 || { echo "APPLY FAILED" >> $log; }
echo "== demo with change (expect FAIL)" >> $log
(cd $wt && go test -vet=off -count=1 -timeout 15m -run "^$tname\$" $pkg) >> $log 2>&1; mut_rc=$?
rm -f $wt/$pkg/$file
echo "== build + existing tests with change (expect PASS)" >> $log
pkgs=$( (cd $wt && git diff --name-only | xargs -n1 dirname | sort -u | sed 's|^|./|') | tr '\n' ' ')
# packages importing changed ones: run root for qpeerset/pb/internal/records changes
case "$pkgs" in *qpeerset*|*./pb*|*internal*|*records*|*netsize*|*rtrefresh*|*crawler*) pkgs="$pkgs . ./fullrt ./dual";; esac
case "$pkgs" in *provider/internal*|*provider/keystore*) pkgs="$pkgs ./provider ./provider/dual ./provider/buffered";; esac
pkgs=$(echo $pkgs | tr ' ' '\n' | sort -u | tr '\n' ' ')
(cd $wt && go build ./... && go test -vet=off -count=1 -timeout 25m $pkgs) >> $log 2>&1; ex_rc=$?
cp $src/patch.diff $src/$file $out/
python3 - <<PY
import json
m=json.load(open('$src/meta.json'))
m['confirmed']={'demo_on_clean_rc':$clean_rc,'demo_with_change_rc':$mut_rc,'existing_tests_with_change_rc':$ex_rc,'existing_tests_run':'go test -vet=off -count=1 $pkgs','demo_test':'$tname'}
m['valid']= ($clean_rc==0 and $mut_rc!=0 and $ex_rc==0)
json.dump(m,open('$out/meta.json','w'),indent=1)
print('$name','valid' if m['valid'] else 'INVALID',m['confirmed'])
PY
git -C /repo worktree remove --force $wt
