#!/bin/bash
# repro.sh <repro-file> <pkgdir> <TestName> [fix-commit]
# Runs the reproduction test (injected with -overlay, nothing written to /repo)
# on /repo's working tree, and - when a fix commit is given - on a scratch
# worktree with that commit reverted (expected to FAIL there).
f=$1; pkg=$2; tn=$3; fix=${4:-}
export GOFLAGS=-mod=mod GOPROXY=off
run() { # dir
  ov=$(mktemp /tmp/ov.XXXXXX.json)
  printf '{"Replace":{"%s/%s/zz_repro_test.go":"%s"}}' "$1" "$pkg" "$f" > $ov
  (cd $1 && go test -overlay $ov -vet=off -count=1 -timeout 300s -run "^$tn\$" ./$pkg 2>&1 | tail -15); rc=${PIPESTATUS[0]}
  rm -f $ov; return $rc
}
echo "== on /repo working tree"; run /repo; echo "rc=$?"
if [ -n "$fix" ]; then
  wt=/tmp/repro-wt-$$; git -C /repo worktree add -q --detach $wt HEAD && (cd $wt && git revert --no-edit -n $fix >/dev/null 2>&1 || git show $fix | git apply -R)
  echo "== with $fix reverted (expect FAIL)"; run $wt; echo "rc=$?"
  git -C /repo worktree remove --force $wt
fi
