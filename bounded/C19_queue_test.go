package queue

// BOUNDED stand-in for the ordered-map clauses of property C19. NOT a proof.
//
// The provide queue is a deque plus two tries of external generic types; the
// contract verifier has no model of them. Here the postconditions the property
// states are EXECUTED after every operation of every operation sequence of a
// bounded length over a small universe:
//
//   - prefixes: every bit string of length <= 2 (7 prefixes),
//   - keys: 8 multihashes whose 256-bit identifiers start with the 8 different
//     3-bit patterns (found by search at start-up, deterministic),
//   - operations: Enqueue(p, k) for every prefix p and every key k under p,
//     Dequeue, DequeueMatching(p), Remove(k), Remove(k,k') for two keys of one
//     2-bit region (also the same key twice), Clear,
//   - every sequence of 3 operations (quick tier) or 4 operations (thorough
//     tier), exhaustively, and after each sequence a
//     Persist + DrainDatastore round trip into a fresh queue.
//
// Output protocol (parsed by govc check):
//   BOUNDED-OK <clause> cases=<n>  /  BOUNDED-FAIL <clause> <failing sequence>

import (
	"context"
	"fmt"
	"os"
	"sort"
	"strings"
	"testing"

	ds "github.com/ipfs/go-datastore"
	dssync "github.com/ipfs/go-datastore/sync"
	"github.com/ipfs/go-libdht/kad/key"
	"github.com/ipfs/go-libdht/kad/key/bitstr"
	"github.com/libp2p/go-libp2p-kad-dht/provider/internal/keyspace"
	mh "github.com/multiformats/go-multihash"
)

type c19op struct {
	kind   string // enq, deq, deqm, rm, clear
	prefix bitstr.Key
	key    int // index into keys
	key2   int // second key of a two-key Remove (-1: none)
}

func (o c19op) String() string {
	switch o.kind {
	case "enq":
		return fmt.Sprintf("Enqueue(%q,k%d)", o.prefix, o.key)
	case "deqm":
		return fmt.Sprintf("DequeueMatching(%q)", o.prefix)
	case "rm":
		if o.key2 >= 0 {
			return fmt.Sprintf("Remove(k%d,k%d)", o.key, o.key2)
		}
		return fmt.Sprintf("Remove(k%d)", o.key)
	}
	return o.kind
}

type c19state struct {
	prefixes []bitstr.Key // deque order
	keys     []string     // sorted multihash strings
}

func c19snapshot(q *ProvideQueue) c19state {
	var s c19state
	for i := 0; i < q.queue.queue.Len(); i++ {
		s.prefixes = append(s.prefixes, q.queue.queue.At(i))
	}
	for _, h := range keyspace.AllValues(q.keys, zeroKey) {
		s.keys = append(s.keys, string(h))
	}
	sort.Strings(s.keys)
	return s
}

func c19isPrefix(a, b bitstr.Key) bool { return len(a) <= len(b) && b[:len(a)] == a }

func TestBoundedC19(t *testing.T) {
	ctx := context.Background()
	// 8 keys, one per 3-bit pattern
	var keys []mh.Multihash
	var bits []bitstr.Key
	for pat := 0; pat < 8; pat++ {
		want := fmt.Sprintf("%03b", pat)
		for i := 0; ; i++ {
			h, _ := mh.Sum([]byte(fmt.Sprintf("c19-%d-%d", pat, i)), mh.SHA2_256, -1)
			b := key.BitString(keyspace.MhToBit256(h))
			if strings.HasPrefix(b, want) {
				keys = append(keys, h)
				bits = append(bits, bitstr.Key(b))
				break
			}
		}
	}
	keyIdx := map[string]int{}
	for i, h := range keys {
		keyIdx[string(h)] = i
	}
	prefixes := []bitstr.Key{"", "0", "1", "00", "01", "10", "11"}
	var ops []c19op
	for _, p := range prefixes {
		for ki := range keys {
			if c19isPrefix(p, bits[ki]) {
				ops = append(ops, c19op{kind: "enq", prefix: p, key: ki, key2: -1})
			}
		}
	}
	ops = append(ops, c19op{kind: "deq"})
	for _, p := range prefixes {
		ops = append(ops, c19op{kind: "deqm", prefix: p})
	}
	for ki := range keys {
		ops = append(ops, c19op{kind: "rm", key: ki, key2: -1})
	}
	// one Remove call with two keys of the same 2-bit region (the same key
	// twice, or a second key of the region that may or may not be queued)
	for ki := range keys {
		for kj := range keys {
			if bits[ki][:2] == bits[kj][:2] {
				ops = append(ops, c19op{kind: "rm", key: ki, key2: kj})
			}
		}
	}
	ops = append(ops, c19op{kind: "clear"})

	counts := map[string]int{}
	failed := map[string]bool{}
	fail := func(clause string, seq []c19op, format string, args ...any) {
		if !failed[clause] {
			var ss []string
			for _, o := range seq {
				ss = append(ss, o.String())
			}
			fmt.Printf("BOUNDED-FAIL %s after [%s]: %s\n", clause, strings.Join(ss, "; "), fmt.Sprintf(format, args...))
			t.Errorf("%s: %s", clause, fmt.Sprintf(format, args...))
		}
		failed[clause] = true
	}
	under := func(st c19state, p bitstr.Key) []string {
		var out []string
		for _, k := range st.keys {
			if c19isPrefix(p, bits[keyIdx[k]]) {
				out = append(out, k)
			}
		}
		return out
	}
	sameSet := func(a, b []string) bool {
		if len(a) != len(b) {
			return false
		}
		a2, b2 := append([]string{}, a...), append([]string{}, b...)
		sort.Strings(a2)
		sort.Strings(b2)
		for i := range a2 {
			if a2[i] != b2[i] {
				return false
			}
		}
		return true
	}
	minus := func(a, b []string) []string {
		rm := map[string]bool{}
		for _, x := range b {
			rm[x] = true
		}
		var out []string
		for _, x := range a {
			if !rm[x] {
				out = append(out, x)
			}
		}
		return out
	}
	asStrings := func(hs []mh.Multihash) []string {
		var out []string
		for _, h := range hs {
			out = append(out, string(h))
		}
		return out
	}

	// checkInvariants: the representation invariants the property states
	checkInvariants := func(q *ProvideQueue, st c19state, seq []c19op) {
		counts["prefixes-never-overlap"]++
		for i, a := range st.prefixes {
			for j, b := range st.prefixes {
				if i != j && (c19isPrefix(a, b) || c19isPrefix(b, a)) {
					fail("prefixes-never-overlap", seq, "queue holds %q and %q", a, b)
				}
			}
		}
		counts["order-and-membership-agree"]++
		var inTrie []string
		for _, p := range keyspace.AllKeys(q.queue.prefixes, zeroKey) {
			inTrie = append(inTrie, string(p))
		}
		var inDeque []string
		for _, p := range st.prefixes {
			inDeque = append(inDeque, string(p))
		}
		if !sameSet(inTrie, inDeque) {
			fail("order-and-membership-agree", seq, "deque %q vs prefix trie %q", inDeque, inTrie)
		}
		counts["every-queued-key-is-under-a-queued-prefix"]++
		for _, k := range st.keys {
			n := 0
			for _, p := range st.prefixes {
				if c19isPrefix(p, bits[keyIdx[k]]) {
					n++
				}
			}
			if n != 1 {
				fail("every-queued-key-is-under-a-queued-prefix", seq, "key k%d is under %d queued prefixes %q", keyIdx[k], n, st.prefixes)
			}
		}
		counts["size-is-the-number-of-keys"]++
		if q.Size() != len(st.keys) || q.NumRegions() != len(st.prefixes) {
			fail("size-is-the-number-of-keys", seq, "Size=%d keys=%d NumRegions=%d prefixes=%d", q.Size(), len(st.keys), q.NumRegions(), len(st.prefixes))
		}
	}

	apply := func(q *ProvideQueue, o c19op, seq []c19op) {
		before := c19snapshot(q)
		switch o.kind {
		case "enq":
			q.Enqueue(o.prefix, keys[o.key])
			after := c19snapshot(q)
			counts["enqueue-adds-exactly-the-key"]++
			want := before.keys
			if len(minus([]string{string(keys[o.key])}, before.keys)) == 1 {
				want = append(append([]string{}, before.keys...), string(keys[o.key]))
			}
			if !sameSet(after.keys, want) {
				fail("enqueue-adds-exactly-the-key", seq, "keys before %d after %d", len(before.keys), len(after.keys))
			}
			counts["enqueue-keeps-the-order-of-surviving-prefixes"]++
			// surviving prefixes keep their relative order; absorbed ones are superstrings of the new prefix
			pos := map[bitstr.Key]int{}
			for i, p := range after.prefixes {
				pos[p] = i
			}
			last := -1
			for _, p := range before.prefixes {
				if i, ok := pos[p]; ok {
					if i < last {
						fail("enqueue-keeps-the-order-of-surviving-prefixes", seq, "order changed: before %q after %q", before.prefixes, after.prefixes)
					}
					last = i
				} else if !c19isPrefix(o.prefix, p) {
					fail("enqueue-keeps-the-order-of-surviving-prefixes", seq, "prefix %q vanished although it is not under %q", p, o.prefix)
				}
			}
			// absorption happens at the position of the first absorbed superstring
			counts["shorter-prefix-absorbs-at-the-first-position"]++
			first := -1
			for i, p := range before.prefixes {
				if c19isPrefix(o.prefix, p) && p != o.prefix {
					first = i
					break
				}
			}
			if first >= 0 {
				// number of surviving prefixes that were before `first`
				n := 0
				for i := 0; i < first; i++ {
					if _, ok := pos[before.prefixes[i]]; ok {
						n++
					}
				}
				if i, ok := pos[o.prefix]; !ok || i != n {
					fail("shorter-prefix-absorbs-at-the-first-position", seq, "before %q after %q", before.prefixes, after.prefixes)
				}
			}
		case "deq":
			p, ks, ok := q.Dequeue()
			after := c19snapshot(q)
			counts["dequeue-returns-the-oldest-prefix-with-all-and-only-its-keys"]++
			if len(before.prefixes) == 0 {
				if ok {
					fail("dequeue-returns-the-oldest-prefix-with-all-and-only-its-keys", seq, "dequeue on empty queue returned %q", p)
				}
				break
			}
			if !ok || p != before.prefixes[0] || !sameSet(asStrings(ks), under(before, p)) || !sameSet(after.keys, minus(before.keys, under(before, p))) {
				fail("dequeue-returns-the-oldest-prefix-with-all-and-only-its-keys", seq, "got (%q, %d keys, %v), oldest %q has %d keys", p, len(ks), ok, before.prefixes[0], len(under(before, before.prefixes[0])))
			}
		case "deqm":
			ks := q.DequeueMatching(o.prefix)
			after := c19snapshot(q)
			counts["dequeue-matching-returns-all-and-only-the-keys-under-the-prefix"]++
			if !sameSet(asStrings(ks), under(before, o.prefix)) || !sameSet(after.keys, minus(before.keys, under(before, o.prefix))) {
				fail("dequeue-matching-returns-all-and-only-the-keys-under-the-prefix", seq, "got %d keys, %d queued under %q", len(ks), len(under(before, o.prefix)), o.prefix)
			}
		case "rm":
			gone := []string{string(keys[o.key])}
			if o.key2 >= 0 {
				q.Remove(keys[o.key], keys[o.key2])
				gone = append(gone, string(keys[o.key2]))
			} else {
				q.Remove(keys[o.key])
			}
			after := c19snapshot(q)
			counts["remove-removes-exactly-the-key"]++
			if !sameSet(after.keys, minus(before.keys, gone)) {
				fail("remove-removes-exactly-the-key", seq, "keys before %d after %d", len(before.keys), len(after.keys))
			}
		case "clear":
			n := q.Clear()
			after := c19snapshot(q)
			counts["clear-empties-the-queue"]++
			if n != len(before.keys) || len(after.keys) != 0 || len(after.prefixes) != 0 {
				fail("clear-empties-the-queue", seq, "returned %d of %d, left %d keys %d prefixes", n, len(before.keys), len(after.keys), len(after.prefixes))
			}
		}
		checkInvariants(q, c19snapshot(q), seq)
	}

	roundTrip := func(q *ProvideQueue, seq []c19op) {
		counts["persist-then-drain-restores-prefixes-order-and-keys"]++
		st := c19snapshot(q)
		d := dssync.MutexWrap(ds.NewMapDatastore())
		if err := q.Persist(ctx, d, 3); err != nil {
			fail("persist-then-drain-restores-prefixes-order-and-keys", seq, "Persist: %v", err)
			return
		}
		q2 := NewProvideQueue()
		if err := q2.DrainDatastore(ctx, d); err != nil {
			fail("persist-then-drain-restores-prefixes-order-and-keys", seq, "DrainDatastore: %v", err)
			return
		}
		st2 := c19snapshot(q2)
		same := len(st.prefixes) == len(st2.prefixes) && sameSet(st.keys, st2.keys)
		for i := range st.prefixes {
			if same && st.prefixes[i] != st2.prefixes[i] {
				same = false
			}
		}
		if !same {
			fail("persist-then-drain-restores-prefixes-order-and-keys", seq, "before %q/%d keys, restored %q/%d keys", st.prefixes, len(st.keys), st2.prefixes, len(st2.keys))
		}
	}

	// quick: every sequence of 3 operations; thorough: of 4
	depth := 3
	if os.Getenv("VERIF_TIER") == "thorough" {
		depth = 4
	}
	seq := make([]c19op, 0, depth)
	var rec func(level int)
	rec = func(level int) {
		if level == depth {
			func() {
				defer func() {
					if r := recover(); r != nil {
						counts["no-operation-panics"]++
						fail("no-operation-panics", seq, "panic: %v", r)
					}
				}()
				q := NewProvideQueue()
				for i, o := range seq {
					apply(q, o, seq[:i+1])
				}
				roundTrip(q, seq)
			}()
			counts["no-operation-panics"]++
			return
		}
		for _, o := range ops {
			seq = append(seq, o)
			rec(level + 1)
			seq = seq[:len(seq)-1]
		}
	}
	rec(0)

	var names []string
	for c := range counts {
		names = append(names, c)
	}
	sort.Strings(names)
	for _, c := range names {
		if !failed[c] {
			fmt.Printf("BOUNDED-OK %s cases=%d\n", c, counts[c])
		}
	}
}
