package keyspace

// BOUNDED stand-in for property C18 (trie.go). NOT a proof.
//
// The trie functions are generic recursive functions over an external generic
// trie type and are outside the deductive verifier's reach. Here the same
// set-theoretic postconditions a contract would state are EXECUTED over an
// exhaustively enumerated small domain:
//
//   - every prefix-free set of bit strings of length <= 3 (677 sets),
//   - every bit string of length <= 3 as query prefix / key,
//   - every 3-bit order key,
//   - for allocation: every pair of non-empty sets of 3-bit keys and k in 1..3,
//   - for regions: every set of "peers" whose 256-bit keys differ in their first
//     4 bits only (built directly as bit256 keys), region sizes 1..3;
//   - regions + key assignment + allocation composed as the provider does it:
//     the same peer sets (quick: every 7th), 16 keys covering every 4-bit
//     prefix, k = region size 1..3.
//
// Output protocol (parsed by govc check): one line per function
//   BOUNDED-OK <function> cases=<n>
//   BOUNDED-FAIL <function> <failing input and what was expected>
// This file is injected with `go test -overlay`; nothing is written to /repo.

import (
	"fmt"
	"os"
	"sort"
	"strings"
	"testing"

	"github.com/ipfs/go-libdht/kad/key"
	"github.com/ipfs/go-libdht/kad/key/bit256"
	"github.com/ipfs/go-libdht/kad/key/bitstr"
	"github.com/ipfs/go-libdht/kad/trie"
	"github.com/libp2p/go-libp2p/core/peer"
	mh "github.com/multiformats/go-multihash"
)

const bMaxLen = 3

func bAllStrings(maxLen int) []bitstr.Key {
	out := []bitstr.Key{""}
	for l := 1; l <= maxLen; l++ {
		for v := 0; v < 1<<l; v++ {
			out = append(out, bitstr.Key(fmt.Sprintf("%0*b", l, v)))
		}
	}
	return out
}

func bFull(l int) []bitstr.Key {
	var out []bitstr.Key
	for v := 0; v < 1<<l; v++ {
		out = append(out, bitstr.Key(fmt.Sprintf("%0*b", l, v)))
	}
	return out
}

func bIsPrefix(a, b bitstr.Key) bool { return len(a) <= len(b) && b[:len(a)] == a }

// all prefix-free sets (antichains) over strings of length <= maxLen
func bAntichains(maxLen int) [][]bitstr.Key {
	var rec func(p bitstr.Key) [][]bitstr.Key
	rec = func(p bitstr.Key) [][]bitstr.Key {
		res := [][]bitstr.Key{{}, {p}}
		if len(p) == maxLen {
			return res
		}
		l, r := rec(p+"0"), rec(p+"1")
		for _, a := range l {
			for _, b := range r {
				if len(a)+len(b) == 0 {
					continue // already counted as {}
				}
				res = append(res, append(append([]bitstr.Key{}, a...), b...))
			}
		}
		return res
	}
	return rec("")
}

func bTrie(s []bitstr.Key) *trie.Trie[bitstr.Key, int] {
	t := trie.New[bitstr.Key, int]()
	for i, k := range s {
		t.Add(k, i)
	}
	return t
}

func bKeys[D any](t *trie.Trie[bitstr.Key, D]) []bitstr.Key {
	var out []bitstr.Key
	for _, e := range AllEntries(t, bitstr.Key("0000")) {
		out = append(out, e.Key)
	}
	sort.Slice(out, func(i, j int) bool { return out[i] < out[j] })
	return out
}

func bSorted(s []bitstr.Key) []bitstr.Key {
	o := append([]bitstr.Key{}, s...)
	sort.Slice(o, func(i, j int) bool { return o[i] < o[j] })
	return o
}

func bEq(a, b []bitstr.Key) bool {
	if len(a) != len(b) {
		return false
	}
	for i := range a {
		if a[i] != b[i] {
			return false
		}
	}
	return true
}

// leaves of the 3-bit keyspace covered by s
func bCov(s []bitstr.Key) map[bitstr.Key]bool {
	c := map[bitstr.Key]bool{}
	for _, x := range bFull(bMaxLen) {
		for _, p := range s {
			if bIsPrefix(p, x) {
				c[x] = true
			}
		}
	}
	return c
}

// position of key x in the traversal that visits the branch of `order` first:
// x XOR order, bit by bit
func bRank(x, order bitstr.Key) string {
	var sb strings.Builder
	for i := 0; i < len(x); i++ {
		if x[i] == order[i] {
			sb.WriteByte('0')
		} else {
			sb.WriteByte('1')
		}
	}
	return sb.String()
}

type bReport struct {
	t     *testing.T
	name  string
	cases int
	bad   bool
}

func (r *bReport) fail(format string, args ...any) {
	if !r.bad {
		fmt.Printf("BOUNDED-FAIL %s %s\n", r.name, fmt.Sprintf(format, args...))
		r.t.Errorf("%s: %s", r.name, fmt.Sprintf(format, args...))
	}
	r.bad = true
}

func (r *bReport) done() {
	if !r.bad {
		fmt.Printf("BOUNDED-OK %s cases=%d\n", r.name, r.cases)
	}
}

func TestBoundedC18(t *testing.T) {
	sets := bAntichains(bMaxLen)
	all := bAllStrings(bMaxLen)
	orders := bFull(bMaxLen)

	// FindPrefixOfKey: the unique member of S that is a prefix of k
	{
		r := &bReport{t: t, name: "FindPrefixOfKey"}
		for _, s := range sets {
			tr := bTrie(s)
			for _, k := range all {
				r.cases++
				var want bitstr.Key
				found := false
				for _, p := range s {
					if bIsPrefix(p, k) {
						want, found = p, true
					}
				}
				got, ok := FindPrefixOfKey(tr, k)
				if ok != found || (found && got != want) {
					r.fail("S=%q k=%q: got (%q,%v) want (%q,%v)", s, k, got, ok, want, found)
				}
			}
		}
		r.done()
	}

	// PruneSubtrie, two in a row on the same trie (a prune leaves empty leaves
	// behind; the next prune must still remove exactly the members under its prefix)
	{
		r := &bReport{t: t, name: "PruneSubtrie(sequence)"}
		for _, s := range sets {
			for _, k1 := range all {
				for _, k2 := range all {
					r.cases++
					tr := bTrie(s)
					PruneSubtrie(tr, k1)
					PruneSubtrie(tr, k2)
					var want []bitstr.Key
					for _, x := range s {
						if !bIsPrefix(k1, x) && !bIsPrefix(k2, x) {
							want = append(want, x)
						}
					}
					if got := bKeys(tr); !bEq(got, bSorted(want)) {
						r.fail("S=%q prune %q then %q: got %q want %q", s, k1, k2, got, bSorted(want))
					}
				}
			}
		}
		r.done()
	}

	// PruneSubtrie: exactly the members under k disappear
	{
		r := &bReport{t: t, name: "PruneSubtrie"}
		for _, s := range sets {
			for _, k := range all {
				r.cases++
				tr := bTrie(s)
				PruneSubtrie(tr, k)
				var want []bitstr.Key
				for _, x := range s {
					if !bIsPrefix(k, x) {
						want = append(want, x)
					}
				}
				if got := bKeys(tr); !bEq(got, bSorted(want)) {
					r.fail("S=%q k=%q: got %q want %q", s, k, got, bSorted(want))
				}
			}
		}
		r.done()
	}

	// SubtractTrie: members of S0 not covered by (equal to or under) a member of S1
	{
		r := &bReport{t: t, name: "SubtractTrie"}
		for _, s0 := range sets {
			t0 := bTrie(s0)
			for _, s1 := range sets {
				r.cases++
				var want []bitstr.Key
				for _, x := range s0 {
					covered := false
					for _, p := range s1 {
						if bIsPrefix(p, x) {
							covered = true
						}
					}
					if !covered {
						want = append(want, x)
					}
				}
				got := bKeys(SubtractTrie(t0, bTrie(s1)))
				if !bEq(got, bSorted(want)) {
					r.fail("S0=%q S1=%q: got %q want %q", s0, s1, got, bSorted(want))
				}
				if after := bKeys(t0); !bEq(after, bSorted(s0)) {
					r.fail("S0=%q S1=%q: SubtractTrie modified its first argument: %q", s0, s1, after)
				}
			}
		}
		r.done()
	}

	// CoalesceTrie: same coverage, no sibling pair left, nothing but ancestors introduced
	{
		r := &bReport{t: t, name: "CoalesceTrie"}
		for _, s := range sets {
			r.cases++
			tr := bTrie(s)
			CoalesceTrie(tr)
			got := bKeys(tr)
			c0, c1 := bCov(s), bCov(got)
			same := len(c0) == len(c1)
			for x := range c0 {
				if !c1[x] {
					same = false
				}
			}
			if !same {
				r.fail("S=%q: coverage changed, result %q", s, got)
			}
			in := map[bitstr.Key]bool{}
			for _, x := range got {
				in[x] = true
			}
			for _, x := range got {
				if len(x) > 0 && in[FlipLastBit(x)] {
					r.fail("S=%q: siblings %q and %q left in %q", s, x, FlipLastBit(x), got)
				}
			}
		}
		r.done()
	}

	// KeyspaceCovered: every 3-bit key is under a member
	{
		r := &bReport{t: t, name: "KeyspaceCovered"}
		for _, s := range sets {
			r.cases++
			want := len(bCov(s)) == 1<<bMaxLen
			if got := KeyspaceCovered(bTrie(s)); got != want {
				r.fail("S=%q: got %v want %v", s, got, want)
			}
		}
		r.done()
	}

	// NextNonEmptyLeaf: cyclic successor in the order that visits order's branch first
	{
		r := &bReport{t: t, name: "NextNonEmptyLeaf"}
		for _, s := range sets {
			tr := bTrie(s)
			for _, order := range orders {
				srt := append([]bitstr.Key{}, s...)
				// prefix-free => ranks of different members differ within the shorter one
				sort.Slice(srt, func(i, j int) bool { return bRank(srt[i], order) < bRank(srt[j], order) })
				for _, k := range all {
					// k is a member, or unrelated to every member
					member, related := false, false
					for _, x := range s {
						if x == k {
							member = true
						} else if bIsPrefix(x, k) || bIsPrefix(k, x) {
							related = true
						}
					}
					if related {
						continue
					}
					r.cases++
					got := NextNonEmptyLeaf(tr, k, order)
					if len(s) == 0 {
						if got != nil {
							r.fail("S={} k=%q order=%q: got %q want nil", k, order, got.Key)
						}
						continue
					}
					var want bitstr.Key
					found := false
					for _, x := range srt {
						if bRank(x, order) > bRank(k, order) && !(member && x == k) {
							want, found = x, true
							break
						}
					}
					if !found {
						want = srt[0] // wrap around
					}
					if got == nil || got.Key != want {
						g := "nil"
						if got != nil {
							g = string(got.Key)
						}
						r.fail("S=%q k=%q order=%q: got %q want %q", s, k, order, g, want)
					}
				}
			}
		}
		r.done()
	}

	// AllocateToKClosest: every item goes to exactly min(k,|dests|) distinct
	// destinations, and they are the XOR-nearest ones
	{
		r := &bReport{t: t, name: "AllocateToKClosest"}
		full := bFull(bMaxLen)
		n := len(full)
		xor := func(a, b bitstr.Key) int {
			d := 0
			for i := range a {
				d <<= 1
				if a[i] != b[i] {
					d |= 1
				}
			}
			return d
		}
		for im := 1; im < 1<<n; im++ {
			items := trie.New[bitstr.Key, bitstr.Key]()
			var itemKeys []bitstr.Key
			for i := 0; i < n; i++ {
				if im&(1<<i) != 0 {
					items.Add(full[i], full[i])
					itemKeys = append(itemKeys, full[i])
				}
			}
			for dm := 1; dm < 1<<n; dm++ {
				dests := trie.New[bitstr.Key, bitstr.Key]()
				var destKeys []bitstr.Key
				for i := 0; i < n; i++ {
					if dm&(1<<i) != 0 {
						dests.Add(full[i], full[i])
						destKeys = append(destKeys, full[i])
					}
				}
				for k := 1; k <= 3; k++ {
					r.cases++
					alloc := AllocateToKClosest(items, dests, k)
					got := map[bitstr.Key][]bitstr.Key{} // item -> destinations
					for d, batches := range alloc {
						for _, b := range batches {
							for _, it := range b {
								got[it] = append(got[it], d)
							}
						}
					}
					for _, it := range itemKeys {
						ds := append([]bitstr.Key{}, destKeys...)
						sort.Slice(ds, func(i, j int) bool { return xor(ds[i], it) < xor(ds[j], it) })
						want := ds
						if len(want) > k {
							want = want[:k]
						}
						if !bEq(bSorted(got[it]), bSorted(want)) {
							r.fail("items=%q dests=%q k=%d: item %q allocated to %q, nearest are %q", itemKeys, destKeys, k, it, bSorted(got[it]), bSorted(want))
						}
					}
					if len(got) != len(itemKeys) {
						r.fail("items=%q dests=%q k=%d: %d items allocated", itemKeys, destKeys, k, len(got))
					}
				}
			}
		}
		r.done()
	}

	// extractMinimalRegions / AssignKeysToRegions (via tries of 256-bit keys that
	// differ in their first 4 bits): regions partition the peers, prefixes do not
	// overlap and cover the root prefix, every region has >= size peers when the
	// total allows, every key lands in exactly one region
	{
		r := &bReport{t: t, name: "extractMinimalRegions"}
		const bits = 4
		mk := func(v int) bit256.Key {
			var b [32]byte
			b[0] = byte(v << (8 - bits))
			return bit256.NewKeyFromArray(b)
		}
		order := mk(0)
		for m := 1; m < 1<<(1<<bits); m++ {
			pt := trie.New[bit256.Key, peer.ID]()
			np := 0
			for v := 0; v < 1<<bits; v++ {
				if m&(1<<v) != 0 {
					pt.Add(mk(v), peer.ID(fmt.Sprintf("p%02d", v)))
					np++
				}
			}
			for size := 1; size <= 3; size++ {
				r.cases++
				regions := extractMinimalRegions(pt, "", size, order)
				total := 0
				seen := map[peer.ID]bool{}
				for i, reg := range regions {
					for _, e := range AllEntries(reg.Peers, order) {
						total++
						if seen[e.Data] {
							r.fail("peers=%016b size=%d: peer %s in two regions", m, size, e.Data)
						}
						seen[e.Data] = true
						if !IsPrefix(reg.Prefix, e.Key) {
							r.fail("peers=%016b size=%d: peer %s outside its region %q", m, size, e.Data, reg.Prefix)
						}
					}
					if np >= size && reg.Peers.Size() < size {
						r.fail("peers=%016b size=%d: region %q has %d peers", m, size, reg.Prefix, reg.Peers.Size())
					}
					for j, o := range regions {
						if i != j && (bIsPrefix(reg.Prefix, o.Prefix) || bIsPrefix(o.Prefix, reg.Prefix)) {
							r.fail("peers=%016b size=%d: regions %q and %q overlap", m, size, reg.Prefix, o.Prefix)
						}
					}
				}
				if total != np {
					r.fail("peers=%016b size=%d: %d of %d peers in regions", m, size, total, np)
				}
				// the region prefixes cover the whole (root "") keyspace: every 4-bit key under exactly one
				if np >= 1 {
					for v := 0; v < 1<<bits; v++ {
						x := bitstr.Key(fmt.Sprintf("%0*b", bits, v))
						cnt := 0
						for _, reg := range regions {
							if bIsPrefix(reg.Prefix, x) || bIsPrefix(x, reg.Prefix) {
								cnt++
							}
						}
						if cnt != 1 {
							r.fail("peers=%016b size=%d: key %q is under %d regions", m, size, x, cnt)
						}
					}
				}
			}
		}
		r.done()
	}

	// TrieGaps: the gaps are prefix-free, lie inside the target, cover exactly
	// the part of the target that S does not cover, and come in traversal order
	// (every S, every target, every order - no precondition).
	{
		r := &bReport{t: t, name: "TrieGaps"}
		for _, s := range sets {
			tr := bTrie(s)
			for _, tg := range all {
				for _, order := range orders {
					r.cases++
					gaps := TrieGaps(tr, tg, order)
					covS, covG, covT := bCov(s), bCov(gaps), bCov([]bitstr.Key{tg})
					ok := true
					for _, x := range bFull(bMaxLen) {
						if covG[x] != (covT[x] && !covS[x]) {
							ok = false
						}
					}
					for i, a := range gaps {
						for j, b := range gaps {
							if i != j && bIsPrefix(a, b) {
								ok = false
							}
						}
						if i > 0 {
							// traversal order: compare on the common length
							p, q := gaps[i-1], a
							n := min(len(p), len(q))
							if bRank(p[:n], order) >= bRank(q[:n], order) {
								ok = false
							}
						}
					}
					if !ok {
						r.fail("S=%q target=%q order=%q: got %q", s, tg, order, gaps)
					}
				}
			}
		}
		r.done()
	}

	// Region planning end to end, exactly as the provider composes it:
	// extractMinimalRegions -> AssignKeysToRegions -> AllocateToKClosest(r.Keys,
	// r.Peers, k). Every key lands in one region and is allocated to exactly the
	// min(k, region size) XOR-nearest peers of that region.
	{
		r := &bReport{t: t, name: "regions+allocation"}
		const bits = 4
		mk := func(v int) bit256.Key {
			var b [32]byte
			b[0] = byte(v << (8 - bits))
			return bit256.NewKeyFromArray(b)
		}
		order := mk(0)
		// 16 multihashes whose kademlia keys start with each of the 16 4-bit values
		var keys []mh.Multihash
		have := map[int]bool{}
		for i := 0; len(keys) < 1<<bits; i++ {
			m, _ := mh.Sum([]byte(fmt.Sprintf("bounded-key-%d", i)), mh.SHA2_256, -1)
			k := MhToBit256(m)
			v := 0
			for j := 0; j < bits; j++ {
				v = v<<1 | int(k.Bit(j))
			}
			if !have[v] {
				have[v] = true
				keys = append(keys, m)
			}
		}
		step := 1
		if os.Getenv("VERIF_TIER") != "thorough" {
			step = 7 // quick: every 7th peer set (about 9 400 of 65 535)
		}
		for m := 1; m < 1<<(1<<bits); m += step {
			pt := trie.New[bit256.Key, peer.ID]()
			for v := 0; v < 1<<bits; v++ {
				if m&(1<<v) != 0 {
					pt.Add(mk(v), peer.ID(fmt.Sprintf("p%02d", v)))
				}
			}
			for size := 1; size <= 3; size++ {
				r.cases++
				regions := AssignKeysToRegions(extractMinimalRegions(pt, "", size, order), keys)
				placed := 0
				for _, reg := range regions {
					peers := AllEntries(reg.Peers, order)
					alloc := AllocateToKClosest(reg.Keys, reg.Peers, size)
					got := map[string]map[peer.ID]bool{}
					for p, batches := range alloc {
						for _, b := range batches {
							for _, k := range b {
								if got[string(k)] == nil {
									got[string(k)] = map[peer.ID]bool{}
								}
								got[string(k)][p] = true
							}
						}
					}
					for _, k := range AllValues(reg.Keys, order) {
						placed++
						kk := MhToBit256(k)
						srt := append([]trie.Entry[bit256.Key, peer.ID]{}, peers...)
						sort.Slice(srt, func(i, j int) bool { return srt[i].Key.Xor(kk).Compare(srt[j].Key.Xor(kk)) < 0 })
						n := min(size, len(srt))
						ok := len(got[string(k)]) == n
						for _, e := range srt[:n] {
							if !got[string(k)][e.Data] {
								ok = false
							}
						}
						if !ok {
							var g, w []string
							for p := range got[string(k)] {
								g = append(g, string(p))
							}
							for _, e := range srt[:n] {
								w = append(w, string(e.Data))
							}
							sort.Strings(g)
							r.fail("peers=%016b k=%d region=%q: key with prefix %s allocated to %v, nearest peers of the region are %v", m, size, reg.Prefix, key.BitString(kk)[:bits], g, w)
						}
					}
				}
				if placed != len(keys) {
					r.fail("peers=%016b k=%d: %d of %d keys placed in a region", m, size, placed, len(keys))
				}
			}
		}
		r.done()
	}
}
